"""smverif - runtime monitoring of smoothmath's semantic properties (see /verif/DESIGN.md)."""
