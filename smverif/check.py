"""CLI of every check:  python -B -m smverif.check C08 [--tier quick|thorough] [--replay FILE]

exit 0  held on everything explored (KNOWN-FINDING lines allowed)
exit 1  at least one unlisted violation:  VIOLATION property=<id> replay=<path>
exit 2  inconclusive:                      INCONCLUSIVE property=<id> reason=...
"""
from __future__ import annotations
import argparse
import importlib
import json
import os
import shutil
import subprocess
import sys
import time
from collections import Counter
from concurrent.futures import ThreadPoolExecutor

HERE = os.path.dirname(os.path.abspath(__file__))
VERIF = os.path.dirname(HERE)
EVID = os.path.join(VERIF, "evidence")
PY = "/venv/bin/python"


def _git_state():
    try:
        head = subprocess.run(["git", "-C", "/repo", "rev-parse", "--short", "HEAD"], capture_output=True, text=True, timeout=20).stdout.strip()
        dirty = subprocess.run(["git", "-C", "/repo", "status", "--porcelain", "--", "src"], capture_output=True, text=True, timeout=20).stdout.strip()
        return head + ("+dirty" if dirty else "")
    except Exception:
        return "unknown"


def run_worker(prop, tier, seed, shard, nshards, out, timeout, env_extra=None, replay=None):
    env = dict(os.environ)
    env["SMOOTHMATH_VERIF"] = "1"
    env.setdefault("PYTHONHASHSEED", "0")
    env["PYTHONDONTWRITEBYTECODE"] = "1"
    if env_extra:
        env.update(env_extra)
    cmd = [PY, "-B", "-W", "error::RuntimeWarning", "-m", "smverif.worker", "--prop", prop, "--tier", tier,
           "--seed", str(seed), "--shard", str(shard), "--nshards", str(nshards), "--out", out,
           "--watchdog", str(int(timeout * 0.95))]
    if replay:
        cmd += ["--replay", replay]
    t0 = time.time()
    try:
        p = subprocess.run(cmd, cwd=VERIF, env=env, capture_output=True, text=True, timeout=timeout)
    except subprocess.TimeoutExpired:
        return {"shard": shard, "status": "timeout", "wall_s": time.time() - t0}
    if p.returncode != 0 or not os.path.exists(out):
        return {"shard": shard, "status": "died", "returncode": p.returncode,
                "stderr": (p.stderr or "")[-3000:], "stdout": (p.stdout or "")[-1000:], "wall_s": time.time() - t0}
    with open(out) as f:
        rep = json.load(f)
    rep["status"] = "ok"
    rep["stderr_tail"] = (p.stderr or "")[-500:]
    return rep


def merge(reports):
    m = {"evaluations": 0, "counts": Counter(), "hists": {}, "margins": {}, "samples": [], "nviolations": 0,
         "violations": [], "known_hits": Counter(), "known_examples": {}, "harness_errors": [],
         "n_harness_errors": 0, "hook_counts": Counter(), "rules_fired": Counter(), "rules_seen": set(),
         "routes": Counter(), "margin_where": {}, "memo_hits": 0, "memo_checked": 0, "vars_checked": 0, "warnings": 0,
         "cpu_s": 0.0, "extras": []}
    digests = set()
    for r in reports:
        if r.get("status") != "ok":
            continue
        m["evaluations"] += r["evaluations"]
        m["counts"].update(r["counts"])
        for k, v in r["hists"].items():
            m["hists"].setdefault(k, Counter()).update(v)
        for k, v in r["margins"].items():
            if v > m["margins"].get(k, -1.0):
                m["margins"][k] = v
                if k in r.get("margin_where", {}):
                    m["margin_where"][k] = r["margin_where"][k]
        m["nviolations"] += r["nviolations"]
        m["violations"] += r["violations"]
        m["known_hits"].update(r["known_hits"])
        for k, v in r["known_examples"].items():
            m["known_examples"].setdefault(k, v)
        m["harness_errors"] += r["harness_errors"]
        m["n_harness_errors"] += r["n_harness_errors"]
        m["hook_counts"].update(r["hook_counts"])
        m["rules_fired"].update(r["rules_fired"])
        m["rules_seen"].update(r["rules_seen"])
        m["routes"].update(r["routes"])
        m["memo_hits"] += r["memo"]["hits"]
        m["memo_checked"] += r["memo"]["checked"]
        m["vars_checked"] += r["vars_checked"]
        m["warnings"] += r["warnings"]
        m["cpu_s"] += r["wall_s"]
        if "extra" in r:
            m["extras"].append((r["shard"], r["extra"]))
        try:
            with open(r["digest_file"], "rb") as f:
                data = f.read()
            for i in range(0, len(data), 8):
                digests.add(data[i:i + 8])
        except OSError:
            pass
    # samples: spread over shards
    for r in reports:
        if r.get("status") == "ok":
            for s in r["samples"][:2]:
                if len(m["samples"]) < 6:
                    m["samples"].append(s)
    m["distinct"] = len(digests)
    return m


def main(argv=None):
    ap = argparse.ArgumentParser()
    ap.add_argument("prop")
    ap.add_argument("--tier", default=os.environ.get("VERIF_TIER", "quick"))
    ap.add_argument("--replay", default=None)
    ap.add_argument("--shards", type=int, default=None)
    ap.add_argument("--scale", type=float, default=1.0, help="multiplier on the case budget")
    ap.add_argument("--no-evidence", action="store_true")
    a = ap.parse_args(argv)
    prop = a.prop.upper()
    tier = a.tier if a.tier in ("quick", "thorough") else "quick"
    try:
        seed = int(os.environ.get("VERIF_SEED", "0"))
    except ValueError:
        seed = 0
    t0 = time.time()

    from . import deps
    if not deps.ensure():
        print(f"INCONCLUSIVE property={prop} reason=mpmath could not be installed from the offline wheelhouse")
        return 2
    deps.add_to_path()
    sys.path.insert(0, os.environ.get("SMVERIF_REPO_SRC", "/repo/src"))
    mod = importlib.import_module("smverif.props." + prop.lower())
    from . import core

    work = os.path.join(EVID, ".work", f"{prop}-{tier}-{os.getpid()}")
    os.makedirs(work, exist_ok=True)
    os.makedirs(os.path.join(EVID, "replays"), exist_ok=True)
    try:
        if a.replay:
            return _replay(prop, tier, seed, a.replay, work)
        plan = dict(mod.PLAN[tier])
        nshards = a.shards or plan.get("shards", 16)
        ncpu = os.cpu_count() or 4
        par = min(nshards, ncpu, plan.get("parallel", 16))
        timeout = plan.get("timeout", 900)
        os.environ["SMVERIF_SCALE"] = str(a.scale)
        jobs = []
        for sh in range(nshards):
            env_extra = mod.worker_env(sh, nshards, tier, seed) if hasattr(mod, "worker_env") else None
            jobs.append((prop, tier, seed, sh, nshards, os.path.join(work, f"shard{sh}.json"), timeout, env_extra))
        with ThreadPoolExecutor(max_workers=par) as ex:
            reports = list(ex.map(lambda j: run_worker(*j), jobs))
        m = merge(reports)
        post = []
        if hasattr(mod, "post_merge"):
            post = mod.post_merge(m, reports, tier) or []
        return _verdict(prop, tier, seed, mod, m, reports, post, t0, nshards, write=not a.no_evidence)
    finally:
        shutil.rmtree(work, ignore_errors=True)


def _replay(prop, tier, seed, path, work):
    mod = importlib.import_module("smverif.props." + prop.lower())
    if hasattr(mod, "replay_main"):
        return mod.replay_main(path, run_worker, work)
    out = os.path.join(work, "replay.json")
    rep = run_worker(prop, tier, seed, 0, 1, out, 600, replay=path)
    if rep.get("status") != "ok":
        print(f"INCONCLUSIVE property={prop} reason=replay worker {rep.get('status')}: {rep.get('stderr', '')[-400:]}")
        return 2
    found = rep.get("replay_found") or []
    for v in found:
        print(f"  {v.get('kind')}: {v.get('message')}")
    if rep["nviolations"]:
        print(f"VIOLATION property={prop} replay={path}")
        return 1
    if rep["known_hits"]:
        for k in rep["known_hits"]:
            print(f"KNOWN-FINDING: property={prop} {k} reproduced by this replay")
        return 0
    if rep.get("n_harness_errors"):
        print(f"INCONCLUSIVE property={prop} reason=harness error in replay: {rep['harness_errors'][0]['error']}")
        return 2
    print(f"replay of {path}: property held")
    return 0


def _verdict(prop, tier, seed, mod, m, reports, post, t0, nshards, write=True):
    from . import core
    inconclusive = []
    bad = [r for r in reports if r.get("status") != "ok"]
    for r in bad:
        inconclusive.append(f"shard {r['shard']} {r['status']}" + (": " + r.get("stderr", "")[-300:].replace("\n", " | ") if r.get("stderr") else ""))
    if m["n_harness_errors"]:
        tot = max(1, m["evaluations"])
        first = m["harness_errors"][0]
        if m["n_harness_errors"] > 0:
            inconclusive.append(f"{m['n_harness_errors']} harness errors, first: {first['error']}")
    for reason in (mod.deciding(m) if hasattr(mod, "deciding") else []):
        inconclusive.append(reason)

    # violations -> replay files
    viol_lines = []
    seen_classes = set()
    all_viol = list(m["violations"]) + [p for p in post if p.get("violations")]
    nviol = m["nviolations"] + sum(1 for p in post if p.get("violations"))
    for w in all_viol:
        klass = w["violations"][0].get("kind", "?") if w.get("violations") else "?"
        if klass in seen_classes and len(viol_lines) >= 1:
            continue
        if len(viol_lines) >= 5:
            break
        seen_classes.add(klass)
        w = dict(w)
        w["repo_git"] = _git_state()
        import hashlib
        dg = hashlib.blake2b(json.dumps(w.get("case"), sort_keys=True, default=repr).encode(), digest_size=6).hexdigest()
        path = os.path.join(EVID, "replays", f"{prop}-{dg}.json")
        with open(path, "w") as f:
            json.dump(w, f, indent=1, default=repr)
        viol_lines.append((path, w))

    # known findings
    kf = core.load_known_findings()
    kf_lines = []
    for f in kf.get("findings", []):
        if prop in f.get("properties", []) and f.get("status", "open") == "open":
            hits = m["known_hits"].get(f["id"], 0)
            if hits:
                what = f.get("what", {}).get(prop) or f.get("summary", f["id"])
                kf_lines.append(f"KNOWN-FINDING: property={prop} {f['id']} {what} [{hits} case(s) attributed by counterfactual]")

    wall = time.time() - t0
    status = "violated" if nviol else ("inconclusive" if inconclusive else "held")
    if write:
        _write_evidence(prop, tier, seed, mod, m, reports, wall, nviol, status, inconclusive, kf_lines, nshards)

    for line in kf_lines:
        print(line)
    print(f"[{prop} {tier} seed={seed}] evaluations={m['evaluations']} distinct_nontrivial={m['distinct']} "
          f"violations={nviol} known={sum(m['known_hits'].values())} wall={wall:.1f}s cpu={m['cpu_s']:.0f}s")
    if nviol:
        for path, w in viol_lines:
            v0 = w["violations"][0] if w.get("violations") else {}
            print(f"  {v0.get('kind')}: {str(v0.get('message'))[:400]}")
            print(f"VIOLATION property={prop} replay={path}")
        return 1
    if inconclusive:
        for r in inconclusive[:5]:
            print(f"INCONCLUSIVE property={prop} reason={r}")
        return 2
    return 0


def _anchor_files(prop):
    """Library files the property is anchored in (properties.jsonl), as keys of the coverage report."""
    out = set()
    try:
        with open(os.path.join(VERIF, "properties.jsonl")) as f:
            for line in f:
                rec = json.loads(line)
                if rec.get("id") == prop:
                    for fn in rec.get("anchors", {}).get("files", []):
                        if "smoothmath/" in fn:
                            out.add(fn.split("smoothmath/", 1)[1])
    except Exception:
        pass
    return out


def _write_evidence(prop, tier, seed, mod, m, reports, wall, nviol, status, inconclusive, kf_lines, nshards):
    cov = {
        "evaluations": int(m["evaluations"]),
        "distinct_nontrivial": int(m["distinct"]),
        "rule": getattr(mod, "RULE", ""),
        "samples": m["samples"][:6] or ["<none>"],
        "exhaustive": bool(getattr(mod, "EXHAUSTIVE", {}).get(tier, False)) if isinstance(getattr(mod, "EXHAUSTIVE", None), dict) else False,
        "verdict": status,
        "counts": dict(sorted(m["counts"].items())),
        "histograms": {k: dict(sorted(v.items(), key=lambda kv: -kv[1])[:60]) for k, v in m["hists"].items()},
        "worst_observed_over_allowed": m["margins"],
        "worst_observed_over_allowed_where": m["margin_where"],
        "monitors": {
            "hook_invocations": dict(sorted(m["hook_counts"].items())),
            "rewrite_rules_fired": dict(sorted(m["rules_fired"].items())),
            "rewrite_rules_never_fired": sorted(set(m["rules_seen"]) - set(m["rules_fired"])) if m["rules_seen"] else [],
            "partial_at_routes": dict(m["routes"]),
            "memo_cache_hits_seen": m["memo_hits"], "memo_cache_hits_verified": m["memo_checked"],
            "variable_sets_verified": m["vars_checked"], "reduction_warnings_captured": m["warnings"],
        },
        "known_finding_hits": dict(m["known_hits"]),
        "known_finding_lines": kf_lines,
        "inconclusive_reasons": inconclusive,
        "shards": nshards,
        "shards_ok": sum(1 for r in reports if r.get("status") == "ok"),
        "cpu_s": round(m["cpu_s"], 1),
        "repo_git": _git_state(),
    }
    for r in reports:
        if r.get("status") == "ok" and r.get("line_coverage"):
            lc = r["line_coverage"]
            anchors = _anchor_files(prop)
            tot_x = sum(v["executable"] for v in lc.values())
            tot_h = sum(v["executed"] for v in lc.values())
            cov["line_coverage_shard0"] = {
                "note": "function-body lines of the library executed by shard 0 of this run (sys.monitoring LINE events)",
                "executed": tot_h, "executable": tot_x,
                "anchor_files": {k: [lc[k]["executed"], lc[k]["executable"]] for k in sorted(anchors) if k in lc},
                "files": {k: {"executed": v["executed"], "executable": v["executable"], "unreached": v["unreached"]}
                          for k, v in sorted(lc.items()) if v["executed"] < v["executable"] or (anchors and k in anchors)},
            }
            break
    if hasattr(mod, "extra_coverage"):
        try:
            cov.update(mod.extra_coverage(m))
        except Exception as e:
            cov["extra_coverage_error"] = repr(e)
    ev = {
        "property_id": prop, "tier": tier, "seed": seed, "level": getattr(mod, "LEVEL", "exploration"),
        "coverage": cov,
        "assumptions": list(getattr(mod, "ASSUMPTIONS", [])),
        "wall_s": round(wall, 2),
        "violations": int(nviol),
    }
    os.makedirs(EVID, exist_ok=True)
    tmp = os.path.join(EVID, f".{prop}.json.tmp")
    with open(tmp, "w") as f:
        json.dump(ev, f, indent=1, default=repr)
    os.replace(tmp, os.path.join(EVID, f"{prop}.json"))


if __name__ == "__main__":
    sys.exit(main())
