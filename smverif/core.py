"""Shared run-time context of a shard: counters, violation handling, known-finding attribution."""
from __future__ import annotations
import json
import os
import random
import time
import traceback
from collections import Counter

from . import hooks
from . import spec as S

HERE = os.path.dirname(os.path.abspath(__file__))
VERIF = os.path.dirname(HERE)
KNOWN_FINDINGS = os.path.join(VERIF, "known_findings.json")


def load_known_findings():
    try:
        with open(KNOWN_FINDINGS) as f:
            return json.load(f)
    except FileNotFoundError:
        return {"findings": [], "fixed": []}


class CaseAbort(Exception):
    """Raised by a property module to drop the current case (counted, never a verdict)."""


class Ctx:
    def __init__(self, prop, tier, seed, shard, nshards, mod):
        self.prop = prop
        self.tier = tier
        self.seed = seed
        self.shard = shard
        self.nshards = nshards
        self.mod = mod
        self.rng = random.Random(f"{seed}/{prop}/{tier}/{shard}")
        self.counts = Counter()
        self.hists = {}
        self.margins = {}
        self.margin_where = {}
        self.samples = []
        self.sample_slots = 4
        self.digests = set()
        self.evaluations = 0
        self.violations = []        # new violations (witness dicts)
        self.nviolations = 0
        self.known_hits = Counter() # finding id -> count
        self.known_examples = {}
        self.cur = None             # violations of the case being run
        self.quiet = False
        self.case_index = -1
        self.harness_errors = []
        self.kf = [f for f in load_known_findings().get("findings", [])
                   if prop in f.get("properties", []) and f.get("status", "open") == "open"]
        self.t0 = time.time()
        self.deadline = None

    # -- recording ---------------------------------------------------------------------------------
    def count(self, key, n=1):
        if not self.quiet:
            self.counts[key] += n

    def hist(self, name, key, n=1):
        if not self.quiet:
            self.hists.setdefault(name, Counter())[str(key)] += n

    def margin(self, name, ratio, where=None):
        if not self.quiet:
            try:
                r = float(ratio)
            except Exception:
                return
            if r > self.margins.get(name, 0.0):
                self.margins[name] = r
                if where is not None:
                    self.margin_where[name] = where

    def evaluation(self, n=1):
        if not self.quiet:
            self.evaluations += n

    def nontrivial(self, *objs):
        if not self.quiet:
            self.digests.add(S.digest(*objs))

    def sample(self, obj, force=False):
        if self.quiet:
            return
        if len(self.samples) < self.sample_slots or force:
            self.samples.append(obj)

    def violation(self, kind, message, **detail):
        v = {"kind": kind, "message": message}
        v.update(detail)
        if self.cur is not None:
            self.cur.append(v)
        else:
            self._file_violation({"note": "outside a case"}, [v])

    # -- running cases -------------------------------------------------------------------------------
    def run_case(self, case):
        """Runs one case under the property's check_case with attribution of what it reports."""
        self.case_index += 1
        self.cur = []
        try:
            self.mod.check_case(self, case)
        except CaseAbort:
            self.count("cases_aborted")
        except RecursionError:
            self.count("cases_recursion_limit")
        except Exception as e:
            self.harness_errors.append({"case": case, "error": type(e).__name__ + ": " + str(e)[:300],
                                        "trace": traceback.format_exc()[-1500:]})
        found = self.cur
        self.cur = None
        if found:
            self._classify(case, found)
        return found

    def _rerun_quiet(self, case):
        saved = (self.quiet, self.cur)
        self.quiet = True
        self.cur = []
        try:
            self.mod.check_case(self, case)
        except CaseAbort:
            pass
        except Exception as e:
            self.cur.append({"kind": "harness_error_in_rerun", "message": repr(e)})
        out = self.cur
        self.quiet, self.cur = saved
        return out

    def _classify(self, case, found):
        for f in self.kf:
            name = f.get("neutralise")
            if not name or name not in hooks.NEUTRALISERS:
                continue
            with hooks.neutralise(name):
                again = self._rerun_quiet(case)
            if not again:
                self.known_hits[f["id"]] += 1
                if f["id"] not in self.known_examples:
                    self.known_examples[f["id"]] = {"case": case, "violations": found[:3]}
                return
        # several recorded mechanisms may coincide in one case (a long history): all of them neutralised together
        usable = [f for f in self.kf if f.get("neutralise") in hooks.NEUTRALISERS]
        if len(usable) >= 2:
            import contextlib
            with contextlib.ExitStack() as stack:
                for f in usable:
                    stack.enter_context(hooks.neutralise(f["neutralise"]))
                again = self._rerun_quiet(case)
            if not again:
                for f in usable:
                    self.known_hits[f["id"]] += 1
                    self.known_examples.setdefault(f["id"], {"case": case, "violations": found[:3]})
                self.counts["cases_attributed_to_several_known_findings_together"] += 1
                return
        self._file_violation(case, found)

    def _file_violation(self, case, found):
        self.nviolations += 1
        if len(self.violations) < 25:
            self.violations.append({
                "property": self.prop, "tier": self.tier, "seed": self.seed, "shard": self.shard,
                "case_index": self.case_index, "case": case, "violations": found[:6],
            })

    # -- report ------------------------------------------------------------------------------------------
    def report(self):
        return {
            "prop": self.prop, "tier": self.tier, "seed": self.seed, "shard": self.shard,
            "evaluations": self.evaluations,
            "counts": dict(self.counts),
            "hists": {k: dict(v) for k, v in self.hists.items()},
            "margins": self.margins,
            "margin_where": self.margin_where,
            "samples": self.samples[:8],
            "nviolations": self.nviolations,
            "violations": self.violations,
            "known_hits": dict(self.known_hits),
            "known_examples": self.known_examples,
            "harness_errors": self.harness_errors[:5],
            "n_harness_errors": len(self.harness_errors),
            "hook_counts": dict(hooks.ST.counts),
            "rules_fired": dict(hooks.ST.rw_rules_fired),
            "rules_seen": sorted(hooks.ST.rw_rules_seen),
            "routes": dict(hooks.ST.routes),
            "memo": {"hits": hooks.ST.memo_hits, "checked": hooks.ST.memo_checked},
            "vars_checked": hooks.ST.vars_checked,
            "warnings": len(hooks.ST.warnings),
            "wall_s": time.time() - self.t0,
        }


def shard_share(total, shard, nshards):
    """How many of `total` cases this shard runs."""
    base, rem = divmod(total, nshards)
    return base + (1 if shard < rem else 0)
