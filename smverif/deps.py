"""Offline dependency bootstrap: puts mpmath (pure Python) into <verif>/.deps.

Git-ignored directories do not survive a restore, so this runs from MANIFEST.setup_cmd *and*
at the start of every check.  Idempotent and safe under concurrency (flock).
"""
from __future__ import annotations
import fcntl
import os
import subprocess
import sys

HERE = os.path.dirname(os.path.abspath(__file__))
VERIF = os.path.dirname(HERE)
DEPS = os.path.join(VERIF, ".deps")
WHEELS = "/opt/veriftools/wheels"
PY = "/venv/bin/python"


def have_mpmath() -> bool:
    return os.path.isfile(os.path.join(DEPS, "mpmath", "__init__.py"))


def ensure() -> bool:
    """Returns True when <verif>/.deps holds an importable mpmath."""
    if have_mpmath():
        return True
    os.makedirs(DEPS, exist_ok=True)
    lock_path = os.path.join(DEPS, ".lock")
    with open(lock_path, "w") as lock:
        fcntl.flock(lock, fcntl.LOCK_EX)
        try:
            if have_mpmath():
                return True
            env = dict(os.environ, PIP_NO_INDEX="1", PIP_DISABLE_PIP_VERSION_CHECK="1")
            cmd = [PY, "-m", "pip", "install", "--quiet", "--no-index", "--no-deps",
                   "--find-links", WHEELS, "--target", DEPS, "mpmath"]
            proc = subprocess.run(cmd, env=env, capture_output=True, text=True, timeout=300)
            if proc.returncode != 0:
                sys.stderr.write(proc.stdout + proc.stderr)
                # last resort: a wheel is a zip file
                import glob, zipfile
                wheels = sorted(glob.glob(os.path.join(WHEELS, "mpmath-*.whl")))
                if wheels:
                    with zipfile.ZipFile(wheels[-1]) as z:
                        z.extractall(DEPS)
            return have_mpmath()
        finally:
            fcntl.flock(lock, fcntl.LOCK_UN)


def add_to_path() -> None:
    if DEPS not in sys.path:
        sys.path.insert(0, DEPS)


if __name__ == "__main__":
    ok = ensure()
    print("mpmath present in", DEPS if ok else "NOWHERE")
    sys.exit(0 if ok else 2)
