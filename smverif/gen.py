"""Workload generators (DESIGN.md section 4).  Everything is a pure function of a random.Random."""
from __future__ import annotations
import itertools
import math

from . import spec as S

CONSTS = [0, 1, -1, 2, -2, 3, 0.5, -0.5, 0.25, 1.5, 10, math.e, 0.1, -0.7, 2.0, 1.0, 0.0, 5, 0.75]
CONSTS_NICE = [0, 1, -1, 2, -2, 3, 0.5, -0.5, 0.25, 1.5, 4, 0.75, -3, 5]
BIG_INTS = [2 ** 53, 2 ** 53 + 1, 2 ** 53 + 2, 10 ** 17 + 3, 2 ** 64 - 1, -(2 ** 53 + 1), 2 ** 60, 10 ** 22, 10 ** 22 + 1, float(2 ** 53), 1e17, -9007199254740992.0]
BASES = [None, math.e, 2, 10, 3, 1.5, 0.5, 0.25, 0.1, 7.25, 2.0]
VARNAMES = ["x", "y", "z", "w"]
POINT_VALUES = [0.5, 1.5, 2.0, -1.5, 0.25, 3.0, -0.5, 1.0, -2.0, 0.75, 2.5, -0.25, 4.0, 0.125, -3.0,
                0.1, 1 / 3, math.e, 123.456, 1e-3, -0.7, 2, -1, 3, 1, 0.0, 0, 7, 1.25, -4.5]
DYADIC_VALUES = [0.5, 1.5, 2.0, -1.5, 0.25, 3.0, -0.5, 1.0, -2.0, 0.75, 2.5, -0.25, 4.0, 0.125, -3.0,
                 2, -1, 3, 1, 0, 0.0, 1.25, -4.5, 5, -0.75, 6.5]


class Cfg:
    def __init__(self, **kw):
        self.max_n = 9
        self.float_n = 0.1          # probability of spelling n as an integral float
        self.varnames = VARNAMES[:3]
        self.consts = CONSTS
        self.bases = BASES
        self.exp_base_one = 0.04
        self.p_var = 0.65
        self.kinds = None           # restrict constructors
        self.max_arity = 5
        self.weights = None
        self.__dict__.update(kw)


DEFAULT = Cfg()
POLY = Cfg(kinds=("Add", "Minus", "Negation", "Multiply", "NthPower"), consts=CONSTS_NICE, max_n=4, float_n=0.0)
RATIONAL = Cfg(kinds=("Add", "Minus", "Negation", "Multiply", "NthPower", "Divide", "Reciprocal"),
               consts=CONSTS_NICE, max_n=4, float_n=0.05)

_W = {"Negation": 5, "Reciprocal": 4, "Cosine": 4, "Sine": 4, "NthPower": 7, "NthRoot": 6,
      "Exponential": 5, "Logarithm": 5, "Minus": 7, "Divide": 6, "Power": 5, "Add": 10, "Multiply": 10}


def leaf(rng, cfg=DEFAULT):
    if rng.random() < cfg.p_var:
        return ("Variable", rng.choice(cfg.varnames))
    return ("Constant", rng.choice(cfg.consts))


def pick_n(rng, cfg=DEFAULT):
    r = rng.random()
    if r < 0.35:
        n = 2
    elif r < 0.55:
        n = 3
    elif r < 0.65:
        n = 1
    else:
        n = rng.randint(1, cfg.max_n)
    if rng.random() < cfg.float_n:
        return float(n)
    return n


def pick_base(rng, cfg=DEFAULT, kind="Exponential"):
    if kind == "Exponential" and rng.random() < cfg.exp_base_one:
        return rng.choice([1, 1.0])
    return rng.choice(cfg.bases)


def split(rng, total, parts):
    """Random composition of `total` into `parts` positive integers (total >= parts)."""
    if parts == 1:
        return [total]
    cuts = sorted(rng.sample(range(1, total), parts - 1))
    return [b - a for a, b in zip([0] + cuts, cuts + [total])]


def rand_tree(rng, size, cfg=DEFAULT):
    if size <= 1:
        return leaf(rng, cfg)
    kinds_ = list(cfg.kinds) if cfg.kinds else list(_W)
    w = cfg.weights or _W
    if size == 2:
        kinds2 = [k for k in kinds_ if k not in S.BINARY]
        if kinds2:
            kinds_ = kinds2
    k = rng.choices(kinds_, [w.get(x, 5) for x in kinds_])[0]
    if k in S.UNARY:
        return (k, rand_tree(rng, size - 1, cfg))
    if k in S.POWN:
        return (k, rand_tree(rng, size - 1, cfg), pick_n(rng, cfg))
    if k in S.BASED:
        return (k, rand_tree(rng, size - 1, cfg), pick_base(rng, cfg, k))
    if k in S.BINARY:
        if size < 3:
            return (k, leaf(rng, cfg), leaf(rng, cfg))
        a, b = split(rng, size - 1, 2)
        return (k, rand_tree(rng, a, cfg), rand_tree(rng, b, cfg))
    # n-ary
    rest = size - 1
    r = rng.random()
    if r < 0.04:
        arity = 0
    elif r < 0.12:
        arity = 1
    else:
        arity = rng.randint(2, cfg.max_arity)
    arity = min(arity, rest)
    if arity == 0:
        return (k,)
    parts = split(rng, rest, arity)
    return (k,) + tuple(rand_tree(rng, p, cfg) for p in parts)


def rand_size(rng, lo=1, hi=40):
    r = rng.random()
    if r < 0.5:
        return rng.randint(lo, min(hi, 10))
    if r < 0.85:
        return rng.randint(min(lo + 4, hi), min(hi, 20))
    return rng.randint(min(lo + 10, hi), hi)


def rand_point(rng, names, values=None, int_prob=0.15, extra=0.1, cfg=DEFAULT):
    values = values or POINT_VALUES
    p = {}
    names = list(names)
    rng.shuffle(names)
    for nm in names:
        v = rng.choice(values)
        if isinstance(v, float) and v.is_integer() and rng.random() < int_prob:
            v = int(v)
        p[nm] = v
    if rng.random() < extra:
        k, v = "extra_" + rng.choice("abc"), rng.choice(values)
        if rng.random() < 0.5:
            p = {k: v, **p}          # written before the variables' coordinates
        else:
            p[k] = v
    return p


def share(rng, s, prob=0.5):
    """Returns the build mode: equal sub-specs may or may not be shared objects."""
    return "dag" if rng.random() < prob else "tree"


# ---- positivity-friendly wrappers (keep random trees inside their domain more often) ------------

def positive_of(rng, t):
    r = rng.random()
    if r < 0.4:
        return ("Add", ("NthPower", t, 2), ("Constant", rng.choice([1, 0.5, 2])))
    if r < 0.7:
        return ("Exponential", t, rng.choice([None, 2, 0.5]))
    return ("Add", ("Cosine", t), ("Constant", rng.choice([2, 1.5])))


def friendly_tree(rng, size, cfg=DEFAULT, p=0.6):
    """Random tree in which guarded arguments are wrapped to be positive with probability p."""
    t = rand_tree(rng, size, cfg)
    return _friendly(rng, t, p)


def _friendly(rng, t, p):
    k = t[0]
    if k in S.LEAVES:
        return t
    kids = [_friendly(rng, c, p) for c in S.children(t)]
    if rng.random() < p:
        if k == "Logarithm" or k == "Reciprocal" or (k == "NthRoot" and S.int_n(t[2]) >= 2):
            kids[0] = positive_of(rng, kids[0])
        elif k == "Power":
            kids[0] = positive_of(rng, kids[0])
        elif k == "Divide":
            kids[1] = positive_of(rng, kids[1])
    return S.with_children(t, kids)


# ---- boundary seeker (G-bound) -------------------------------------------------------------------

def affine_zero_at(rng, var, x0):
    """An exactly computable expression in `var` that is zero exactly at var = x0 (x0 dyadic)."""
    r = rng.random()
    v = ("Variable", var)
    if r < 0.35:
        return ("Minus", v, ("Constant", x0))
    if r < 0.55:
        return ("Add", v, ("Constant", -x0))
    if r < 0.7:
        a = rng.choice([2, -2, 0.5, 4, -1])
        return ("Add", ("Multiply", ("Constant", a), v), ("Constant", -a * x0))
    if r < 0.8:
        return ("Negation", ("Minus", v, ("Constant", x0)))
    if r < 0.9:
        return ("Multiply", ("Minus", v, ("Constant", x0)), ("Add", v, ("Constant", 7 - x0 + 0.0)))
    return ("NthPower", ("Minus", v, ("Constant", x0)), rng.choice([1, 3]))


GUARDS = ["Divide", "Reciprocal", "Logarithm", "PowerBase", "RootEven", "RootOdd", "DivideZeroZero", "PowerZeroBaseNeg"]


def guarded(rng, g, arg, other=None):
    other = other if other is not None else ("Constant", rng.choice([1, 2, -3, 0.5]))
    if g == "Divide":
        return ("Divide", other, arg)
    if g == "DivideZeroZero":
        return ("Divide", arg, arg)
    if g == "Reciprocal":
        return ("Reciprocal", arg)
    if g == "Logarithm":
        return ("Logarithm", arg, rng.choice([None, 2, 10, 0.5]))
    if g == "PowerBase":
        return ("Power", arg, rng.choice([("Constant", 2), ("Constant", 0.5), ("Constant", -1), ("Constant", 0),
                                          ("Variable", "y"), ("Constant", 3.0)]))
    if g == "PowerZeroBaseNeg":
        return ("Power", arg, ("Constant", rng.choice([-2, -0.5, 0, 1.5])))
    if g == "RootEven":
        return ("NthRoot", arg, rng.choice([2, 4, 6, 2.0, 8]))
    if g == "RootOdd":
        return ("NthRoot", arg, rng.choice([3, 5, 7, 9, 3.0]))
    raise ValueError(g)


VARFREE_OFFENDERS = [
    ("Logarithm", ("Constant", -1), None),
    ("Logarithm", ("Constant", 0), 2),
    ("Reciprocal", ("Constant", 0)),
    ("Reciprocal", ("Minus", ("Constant", 2), ("Constant", 2))),
    ("Divide", ("Constant", 1), ("Constant", 0)),
    ("Divide", ("Constant", 0), ("Constant", 0)),
    ("NthRoot", ("Constant", 0), 2),
    ("NthRoot", ("Constant", -4), 2),
    ("NthRoot", ("Constant", 0), 3),
    ("NthRoot", ("Constant", -1), 4),
    ("Power", ("Constant", 0), ("Constant", 2)),
    ("Power", ("Constant", -1), ("Constant", 2)),
    ("Power", ("Constant", -2), ("Constant", 0.5)),
    ("Power", ("Constant", 0), ("Constant", 0)),
    ("Logarithm", ("Multiply", ("Constant", 0), ("Constant", 5)), None),
    ("Reciprocal", ("Add",)),
    ("Logarithm", ("Add",), 10),
]

ONES = [
    ("Constant", 1), ("Constant", 1.0), ("Multiply",), ("Exponential", ("Add",), 0.5),
    ("Cosine", ("Constant", 0)), ("NthPower", ("Constant", -1), 2), ("Exponential", ("Constant", 3), 1),
    ("Power", ("Constant", 5), ("Constant", 0)), ("Divide", ("Constant", 2), ("Constant", 2)),
    ("Minus", ("Constant", 3), ("Constant", 2)), ("NthRoot", ("Constant", 1), 2),
]
ZEROS = [
    ("Constant", 0), ("Constant", 0.0), ("Add",), ("Minus", ("Constant", 2), ("Constant", 2)),
    ("Sine", ("Constant", 0)), ("Logarithm", ("Constant", 1), None), ("Multiply", ("Constant", 0), ("Constant", 7)),
    ("Negation", ("Constant", 0)),
]

CONTEXTS = ["plain", "zero_factor_l", "zero_factor_r", "zero_factor_var", "zero_factors_many", "zero_numerator", "base_one_exponent",
            "exp_base_one", "nested_add", "nested_mul", "under_unary", "under_binary_l", "under_binary_r",
            "twice_shared", "power_zero_exponent", "deep"]


def in_context(rng, ctx, g, zero_var=None):
    """Wraps the (possibly undefined) sub-expression g.  zero_var: a variable that is 0 at the point."""
    if ctx == "plain":
        return g
    if ctx == "zero_factor_l":
        return ("Multiply", rng.choice(ZEROS), g)
    if ctx == "zero_factor_r":
        return ("Multiply", g, ("Variable", "y"), rng.choice(ZEROS))
    if ctx == "zero_factor_var":
        z = ("Variable", zero_var) if zero_var else ("Minus", ("Variable", "y"), ("Variable", "y"))
        return ("Multiply", z, g) if rng.random() < 0.5 else ("Multiply", ("Constant", 2), g, z)
    if ctx == "zero_factors_many":
        # products of arity 3-6 with one to three zero factors (constants, variable-free zeros, a coordinate that
        # is 0 at the point) at random positions before / after the guarded node
        zv = ("Variable", zero_var) if zero_var else ("Minus", ("Variable", "y"), ("Variable", "y"))
        fs = [rng.choice(ZEROS + [zv, zv, zv]) for _ in range(rng.randint(1, 3))]
        fs += [rng.choice([("Variable", "y"), ("Constant", 2), ("Variable", "x")]) for _ in range(rng.randint(0, 2))]
        rng.shuffle(fs)
        pos = rng.choice([0, len(fs), len(fs), rng.randint(0, len(fs))])
        fs.insert(pos, g)
        return ("Multiply",) + tuple(fs)
    if ctx == "zero_numerator":
        return ("Divide", rng.choice(ZEROS), ("Add", g, ("Constant", 5)))
    if ctx == "base_one_exponent":
        return ("Power", rng.choice(ONES), g)
    if ctx == "exp_base_one":
        return ("Exponential", g, rng.choice([1, 1.0]))
    if ctx == "nested_add":
        return ("Add", ("Variable", "y"), ("Add", ("Constant", 1), g))
    if ctx == "nested_mul":
        return ("Multiply", ("Variable", "y"), ("Multiply", ("Constant", 3), g), ("Variable", "x"))
    if ctx == "under_unary":
        k = rng.choice(["Negation", "Sine", "Cosine", "NthPower", "Exponential", "Reciprocal", "NthRoot", "Logarithm"])
        if k in S.UNARY:
            return (k, g)
        if k in ("NthPower",):
            return (k, g, rng.choice([1, 2, 3]))
        if k == "NthRoot":
            return (k, ("Add", ("NthPower", g, 2), ("Constant", 1)), rng.choice([2, 3]))
        if k == "Logarithm":
            return (k, ("Add", ("NthPower", g, 2), ("Constant", 1)), None)
        return (k, g, rng.choice([None, 2]))
    if ctx == "under_binary_l":
        return (rng.choice(["Minus", "Divide"]), g, ("Constant", 2))
    if ctx == "under_binary_r":
        return (rng.choice(["Minus", "Power"]), ("Constant", 2), g)
    if ctx == "twice_shared":
        return ("Add", g, ("Multiply", ("Constant", 0), g))
    if ctx == "power_zero_exponent":
        return ("Power", ("Add", ("NthPower", g, 2), ("Constant", 1)), rng.choice(ZEROS))
    if ctx == "deep":
        t = g
        for _ in range(rng.randint(2, 5)):
            t = in_context(rng, rng.choice(CONTEXTS[:-1]), t, zero_var)
        return t
    raise ValueError(ctx)


def boundary_case(rng):
    """Returns (spec, [points], info): a guarded node whose argument hits its boundary exactly at one
    of the points, wrapped in one of the contexts the properties name."""
    x0 = rng.choice([0, 1, -1, 2, 0.5, -2.5, 3, 0.25, 8])
    gk = rng.choice(GUARDS)
    if rng.random() < 0.15:
        g = rng.choice(VARFREE_OFFENDERS)
        gk = "varfree"
    else:
        arg = affine_zero_at(rng, "x", x0)
        other = None
        if rng.random() < 0.3:
            other = rand_tree(rng, rng.randint(1, 4), Cfg(kinds=("Add", "Multiply", "Minus", "Negation"), varnames=["y"], consts=CONSTS_NICE))
        g = guarded(rng, gk, arg, other)
    ctx = rng.choice(CONTEXTS)
    t = in_context(rng, ctx, g, zero_var="z")
    pts = []
    tiny = [2.0 ** -45, -(2.0 ** -45), 1e-13, -1e-13]
    nxt = [math.nextafter(float(x0), math.inf) - x0, math.nextafter(float(x0), -math.inf) - x0]
    for dx in (0, 2.0 ** -20, -(2.0 ** -20), 0.5, -0.5, 1, -1, 3.5, -3.5, rng.choice(tiny), rng.choice(nxt)):
        p = {"x": x0 + dx, "y": rng.choice([2.0, -1.5, 0.5, 3]), "z": 0}
        if rng.random() < 0.2:
            p["z"] = 0.0
        if isinstance(p["x"], float) and p["x"].is_integer() and rng.random() < 0.3:
            p["x"] = int(p["x"])
        pts.append(p)
    return t, pts, {"guard": gk, "context": ctx, "x0": x0}


# ---- rule-targeted shapes (G-rule) ---------------------------------------------------------------

def hole(rng, cfg=DEFAULT, big=False):
    return rand_tree(rng, rng.choice([1, 1, 1, 2, 3, 4] if not big else [1, 2, 3, 5, 8]), cfg)


def _siblings(rng, lo=0, hi=3, cfg=DEFAULT):
    return [hole(rng, cfg) for _ in range(rng.randint(lo, hi))]


def _interleave(rng, specials, cfg=DEFAULT):
    """specials at arbitrary positions between 0-2 random siblings each."""
    out = []
    out += _siblings(rng, 0, 2, cfg)
    for sp in specials:
        out.append(sp)
        out += _siblings(rng, 0, 1, cfg)
    return out


ALMOST_ZERO = [1e-20, -1e-30, 1e-17, -2e-16, 3e-40]
ALMOST_ONE = [1.0000000000000002, 0.9999999999999999, 1 + 1e-12]
ALMOST_MINUS_ONE = [-1.0000000000000002, -0.9999999999999999]

RULE_SHAPES = [
    "add_flatten", "add_zeros", "add_logs", "add_consts", "add_negations", "mul_flatten", "mul_zero", "mul_ones",
    "mul_negations", "mul_nthpowers", "mul_nthroots", "mul_exponentials", "mul_consts", "mul_reciprocals",
    "minus", "divide", "neg_neg", "neg_add", "rec_rec", "rec_neg", "rec_mul",
    "pow_one", "pow_zero", "one_pow", "pow_n", "pow_neg_one", "pow_const_base", "pow_pow", "pow_neg_exp", "pow_rec_base",
    "npow_one", "npow_root", "npow_npow", "npow_neg", "npow_rec", "npow_exp",
    "root_one", "root_npow", "root_root", "root_neg", "root_rec",
    "exp_log", "exp_neg", "log_exp", "log_rec", "log_npow", "cos_neg", "sin_neg", "const_fold", "const_fold_undef",
    "quot_negsum_both", "quot_negsum_one", "prod_negsums", "neg_quotient", "sum_all_negated", "almost_special",
]


def rule_shape(rng, name=None, cfg=DEFAULT):
    name = name or rng.choice(RULE_SHAPES)
    h = lambda: hole(rng, cfg)
    n = lambda: rng.randint(1, 8) if rng.random() < 0.9 else float(rng.randint(1, 8))
    b = lambda: rng.choice([None, 2, 10, 0.5, math.e, 3, 2.0, 1.5])
    if name == "add_flatten":
        inner = ("Add",) + tuple(_siblings(rng, 0, 3, cfg))
        return ("Add",) + tuple(_interleave(rng, [inner] + ([("Add",) + tuple(_siblings(rng, 0, 2, cfg))] if rng.random() < 0.4 else []), cfg))
    if name == "add_zeros":
        zs = [("Constant", rng.choice([0, 0.0, -0.0])) for _ in range(rng.randint(1, 3))]
        if rng.random() < 0.4:
            zs.append(("Constant", rng.choice(ALMOST_ZERO)))          # tiny but NOT zero: must survive
        return ("Add",) + tuple(_interleave(rng, zs, cfg))
    if name == "almost_special":
        # constants next to the values the rules test for (0, 1, -1, integral exponents): nothing may treat them as special
        c = lambda pool: ("Constant", rng.choice(pool))
        return rng.choice([
            ("Multiply", c(ALMOST_ZERO), h(), ("Constant", 1e20)), ("Multiply", h(), c(ALMOST_ZERO)), ("Add", h(), c(ALMOST_ZERO)),
            ("Reciprocal", ("Add", h(), c(ALMOST_ZERO))), ("Multiply", c(ALMOST_ONE), h()), ("Power", h(), c(ALMOST_ONE)),
            ("Power", c(ALMOST_ONE), h()), ("Power", h(), c(ALMOST_ZERO)), ("Power", h(), c(ALMOST_MINUS_ONE)),
            ("Power", h(), ("Constant", rng.choice([2.0000000000000004, 2.9999999999999996]))), ("Multiply", c(ALMOST_MINUS_ONE), h(), c(ALMOST_MINUS_ONE)),
            ("Divide", c(ALMOST_ZERO), h()), ("Logarithm", ("Add", h(), c(ALMOST_ZERO)), None), ("Minus", h(), c(ALMOST_ZERO)),
        ])
    if name == "add_logs":
        b1 = b()
        logs = [("Logarithm", h(), b1) for _ in range(rng.randint(2, 3))]
        if rng.random() < 0.5:
            b2 = b() if rng.random() < 0.6 else (lambda v: v * (1 + 1e-10))(float(S.base_value(b1)))
            logs += [("Logarithm", h(), b2) for _ in range(rng.randint(1, 2))]
        # plus 0-3 logarithms that are each alone in their own base
        for bb in rng.sample([3, 7.25, 0.1, 1.5, 0.25, 5, 12], rng.randint(0, 3)):
            logs.append(("Logarithm", h(), bb))
        rng.shuffle(logs)
        return ("Add",) + tuple(_interleave(rng, logs, cfg))
    if name == "add_consts":
        cs = [("Constant", rng.choice(CONSTS)) for _ in range(rng.randint(2, 4))]
        return ("Add",) + tuple(_interleave(rng, cs, cfg))
    if name == "add_negations":
        ns = [("Negation", h()) for _ in range(rng.randint(1, 3))]
        return ("Add",) + tuple(_interleave(rng, ns, cfg)) if rng.random() < 0.7 else ("Add",) + tuple(ns)
    if name == "mul_flatten":
        inner = ("Multiply",) + tuple(_siblings(rng, 0, 3, cfg))
        return ("Multiply",) + tuple(_interleave(rng, [inner], cfg))
    if name == "mul_zero":
        return ("Multiply",) + tuple(_interleave(rng, [("Constant", rng.choice([0, 0.0]))], cfg))
    if name == "mul_ones":
        return ("Multiply",) + tuple(_interleave(rng, [("Constant", rng.choice([1, 1.0]))] * rng.randint(1, 3), cfg))
    if name == "mul_negations":
        ns = [("Negation", h()) for _ in range(rng.randint(1, 5))]
        return ("Multiply",) + tuple(_interleave(rng, ns, cfg))
    if name == "mul_nthpowers":
        n1 = n()
        ps = [("NthPower", h(), n1) for _ in range(rng.randint(2, 3))]
        if rng.random() < 0.5:
            n2 = n()
            ps += [("NthPower", h(), n2) for _ in range(rng.randint(1, 2))]
        for nn in rng.sample([9, 10, 11, 12, 7], rng.randint(0, 3)):
            ps.append(("NthPower", h(), nn))
        rng.shuffle(ps)
        return ("Multiply",) + tuple(_interleave(rng, ps, cfg))
    if name == "mul_nthroots":
        n1 = n()
        ps = [("NthRoot", h(), n1) for _ in range(rng.randint(2, 3))]
        if rng.random() < 0.5:
            n2 = n()
            ps += [("NthRoot", h(), n2) for _ in range(rng.randint(1, 2))]
        for nn in rng.sample([9, 10, 11, 12, 7], rng.randint(0, 3)):
            ps.append(("NthRoot", h(), nn))
        rng.shuffle(ps)
        return ("Multiply",) + tuple(_interleave(rng, ps, cfg))
    if name == "mul_exponentials":
        b1 = b()
        ps = [("Exponential", h(), b1) for _ in range(rng.randint(2, 3))]
        if rng.random() < 0.5:
            b2 = rng.choice([b(), 1, math.nextafter(float(S.base_value(b1)), math.inf), float(S.base_value(b1)) * (1 - 1e-11)])
            ps += [("Exponential", h(), b2) for _ in range(rng.randint(1, 2))]
        for bb in rng.sample([3, 7.25, 0.1, 1.5, 0.25, 5, 12], rng.randint(0, 3)):
            ps.append(("Exponential", h(), bb))
        rng.shuffle(ps)
        return ("Multiply",) + tuple(_interleave(rng, ps, cfg))
    if name == "mul_consts":
        cs = [("Constant", rng.choice(CONSTS)) for _ in range(rng.randint(2, 4))]
        return ("Multiply",) + tuple(_interleave(rng, cs, cfg))
    if name == "mul_reciprocals":
        rs = [("Reciprocal", h()) for _ in range(rng.randint(1, 3))]
        return ("Multiply",) + tuple(_interleave(rng, rs, cfg)) if rng.random() < 0.7 else ("Multiply",) + tuple(rs)
    if name == "minus":
        return ("Minus", h(), h())
    if name == "divide":
        return ("Divide", h(), h())
    if name == "neg_neg":
        return ("Negation", ("Negation", h()))
    if name == "neg_add":
        return ("Negation", ("Add",) + tuple(_siblings(rng, 0, 4, cfg)))
    if name == "rec_rec":
        return ("Reciprocal", ("Reciprocal", h()))
    if name == "rec_neg":
        return ("Reciprocal", ("Negation", h()))
    if name == "rec_mul":
        return ("Reciprocal", ("Multiply",) + tuple(_siblings(rng, 0, 4, cfg)))
    if name == "pow_one":
        return ("Power", h(), ("Constant", rng.choice([1, 1.0])))
    if name == "pow_zero":
        return ("Power", h(), ("Constant", rng.choice([0, 0.0])))
    if name == "one_pow":
        return ("Power", ("Constant", rng.choice([1, 1.0])), h())
    if name == "pow_n":
        return ("Power", h(), ("Constant", rng.choice([2, 3, 4, 2.0, 5.0, 7, 6])))
    if name == "pow_neg_one":
        return ("Power", h(), ("Constant", rng.choice([-1, -1.0])))
    if name == "pow_const_base":
        return ("Power", ("Constant", rng.choice([2, 0.5, 10, math.e, 3.5, 0.1, -2, 0, -0.5])), h())
    if name == "pow_pow":
        return ("Power", ("Power", h(), h()), h())
    if name == "pow_neg_exp":
        return ("Power", h(), ("Negation", h()))
    if name == "pow_rec_base":
        return ("Power", ("Reciprocal", h()), h())
    if name == "npow_one":
        return ("NthPower", h(), rng.choice([1, 1.0]))
    if name == "npow_root":
        return ("NthPower", ("NthRoot", h(), n()), n())
    if name == "npow_npow":
        return ("NthPower", ("NthPower", h(), n()), n())
    if name == "npow_neg":
        return ("NthPower", ("Negation", h()), n())
    if name == "npow_rec":
        return ("NthPower", ("Reciprocal", h()), n())
    if name == "npow_exp":
        return ("NthPower", ("Exponential", h(), rng.choice([b(), 1])), n())
    if name == "root_one":
        return ("NthRoot", h(), rng.choice([1, 1.0]))
    if name == "root_npow":
        return ("NthRoot", ("NthPower", h(), n()), n())
    if name == "root_root":
        return ("NthRoot", ("NthRoot", h(), n()), n())
    if name == "root_neg":
        return ("NthRoot", ("Negation", h()), n())
    if name == "root_rec":
        return ("NthRoot", ("Reciprocal", h()), n())
    near = lambda bb: (lambda v: rng.choice([math.nextafter(v, math.inf), v * (1 + 1e-10), v * (1 - 1e-12), v + 1e-9]))(float(S.base_value(bb)))
    if name == "exp_log":
        b1 = b()
        r_ = rng.random()
        return ("Exponential", ("Logarithm", h(), b1), b1 if r_ < 0.55 else (near(b1) if r_ < 0.8 else b()))
    if name == "exp_neg":
        return ("Exponential", ("Negation", h()), rng.choice([b(), 1]))
    if name == "log_exp":
        b1 = b()
        r_ = rng.random()
        return ("Logarithm", ("Exponential", h(), b1 if r_ < 0.55 else (near(b1) if r_ < 0.8 else rng.choice([b(), 1]))), b1)
    if name == "log_rec":
        return ("Logarithm", ("Reciprocal", h()), b())
    if name == "log_npow":
        return ("Logarithm", ("NthPower", h(), n()), b())
    if name == "cos_neg":
        return ("Cosine", ("Negation", h()))
    if name == "sin_neg":
        return ("Sine", ("Negation", h()))
    if name == "const_fold":
        return rand_tree(rng, rng.randint(2, 7), Cfg(p_var=0.0, consts=CONSTS_NICE + [0.1, math.e]))
    if name == "const_fold_undef":
        return in_context(rng, rng.choice(CONTEXTS[:14]), rng.choice(VARFREE_OFFENDERS))
    # shapes aimed at the final normal-form pass (quotients / differences with negated sums on either side)
    negsum = lambda: rng.choice([("Add", ("Negation", h()), ("Negation", h())), ("Minus", ("Constant", 0), h()), ("Negation", ("Add", h(), h())),
                                 ("Add", ("Negation", h()), ("Negation", h()), ("Negation", h())), ("Minus", ("Negation", h()), h())])
    if name == "quot_negsum_both":
        num = ("Multiply", h(), negsum()) if rng.random() < 0.6 else negsum()
        return ("Divide", num, negsum())
    if name == "quot_negsum_one":
        return ("Divide", negsum(), h()) if rng.random() < 0.5 else ("Divide", h(), negsum())
    if name == "prod_negsums":
        fs = [negsum() for _ in range(rng.randint(2, 3))] + _siblings(rng, 0, 2, cfg)
        if rng.random() < 0.5:
            fs.append(("Reciprocal", negsum()))
        rng.shuffle(fs)
        return ("Multiply",) + tuple(fs)
    if name == "neg_quotient":
        return rng.choice([("Negation", ("Divide", h(), h())), ("Divide", ("Negation", h()), ("Negation", h())), ("Reciprocal", negsum()),
                           ("Divide", ("Negation", h()), h()), ("Minus", ("Divide", h(), h()), ("Divide", h(), negsum()))])
    if name == "sum_all_negated":
        return ("Add",) + tuple(("Negation", h()) if rng.random() < 0.8 else ("Multiply", ("Constant", -1), h()) for _ in range(rng.randint(1, 4)))
    raise ValueError(name)


def embed(rng, t, cfg=DEFAULT):
    """Places t under a random parent (every parent kind)."""
    k = rng.choice(list(_W) + ["none", "none", "none"])
    h = lambda: hole(rng, cfg)
    if k == "none":
        return t
    if k in S.UNARY:
        return (k, t)
    if k in S.POWN:
        return (k, t, pick_n(rng, cfg))
    if k in S.BASED:
        return (k, t, pick_base(rng, cfg, k))
    if k in S.BINARY:
        return (k, t, h()) if rng.random() < 0.5 else (k, h(), t)
    sib = _siblings(rng, 0, 3, cfg)
    i = rng.randint(0, len(sib))
    return (k,) + tuple(sib[:i]) + (t,) + tuple(sib[i:])


def rule_case(rng, cfg=DEFAULT, name=None):
    t = rule_shape(rng, name, cfg)
    for _ in range(rng.choice([0, 0, 1, 1, 2])):
        t = embed(rng, t, cfg)
    return t


# ---- exhaustive small scope (G-small) -----------------------------------------------------------

SMALL_LEAVES = [("Variable", "x"), ("Variable", "y"), ("Constant", 0), ("Constant", 1), ("Constant", -1), ("Constant", 2)]
SMALL_NS = [1, 2, 3, 4]
SMALL_BASES = [None, 2]


def small_level(children_pool, nary_max=2):
    """All nodes whose children come from children_pool."""
    out = []
    for c in children_pool:
        for k in S.UNARY:
            out.append((k, c))
        for k in S.POWN:
            for n in SMALL_NS:
                out.append((k, c, n))
        for k in S.BASED:
            for b in SMALL_BASES:
                out.append((k, c, b))
    for a in children_pool:
        for b in children_pool:
            for k in S.BINARY:
                out.append((k, a, b))
    for k in S.NARY:
        out.append((k,))
        for a in children_pool:
            out.append((k, a))
        if nary_max >= 2:
            for a in children_pool:
                for b in children_pool:
                    out.append((k, a, b))
    return out


def small_scope_count():
    l1 = small_level(SMALL_LEAVES)
    return len(l1), len(l1) + len(SMALL_LEAVES)


def small_scope_total():
    """Number of trees small_scope_iter enumerates over all shards."""
    pool = len(SMALL_LEAVES) + len(small_level(SMALL_LEAVES))
    per_child = len(S.UNARY) + len(S.POWN) * len(SMALL_NS) + len(S.BASED) * len(SMALL_BASES)
    return pool * per_child + len(S.NARY) * (1 + pool) + pool * pool * (len(S.BINARY) + len(S.NARY))


def small_scope_iter(shard, nshards, rng=None, limit=None):
    """node o children o leaf-grandchildren.  Level-1 nodes (children are leaves) form the pool
    for level 2; the full level-2 space is partitioned over shards by index."""
    l1 = small_level(SMALL_LEAVES)
    pool = SMALL_LEAVES + l1
    idx = 0
    count = 0
    # unary / parameterised over pool
    def gen():
        for c in pool:
            for k in S.UNARY:
                yield (k, c)
            for k in S.POWN:
                for n in SMALL_NS:
                    yield (k, c, n)
            for k in S.BASED:
                for b in SMALL_BASES:
                    yield (k, c, b)
        for k in S.NARY:
            yield (k,)
            for a in pool:
                yield (k, a)
        for a in pool:
            for b in pool:
                for k in S.BINARY:
                    yield (k, a, b)
                for k in S.NARY:
                    yield (k, a, b)
    for t in gen():
        if idx % nshards == shard:
            yield t
            count += 1
            if limit and count >= limit:
                return
        idx += 1


# ---- long chains (C11) --------------------------------------------------------------------------

def chain(rng, length, family=None):
    fam = family or rng.choice(["neg_add", "minus_right", "minus_left", "divide_right", "divide_left", "rec_mul",
                                "neg", "rec", "npow", "root", "explog", "add_nest", "mul_nest", "pow_pow", "mixed",
                                "prod_sums", "neg_prod_sums", "sum_prods", "rec_sums", "log_sum", "exp_prod", "flat_prod_sums", "flat_prod_sums"])
    x = ("Variable", "x")
    t = x
    if fam == "flat_prod_sums":
        # one flat product: constant * (a+b) * (c+d) * ... (k sum factors, k <= 12)
        vs_ = [("Variable", "x"), ("Variable", "y"), ("Constant", 2), ("Variable", "z")]
        k = max(2, min(12, length // 3))
        fs = [("Add", vs_[i % 4], vs_[(i + 1) % 4]) for i in range(k)]
        fs.insert(rng.randint(0, k), ("Constant", rng.choice([2, -1, 3, 0.5])))
        return ("Multiply",) + tuple(fs), fam
    if fam in ("prod_sums", "neg_prod_sums"):
        t = ("Constant", rng.choice([2, -1, 3, 0.5]))
    vs = [("Variable", "x"), ("Variable", "y"), ("Constant", 2), ("Variable", "z")]
    for i in range(length):
        v = vs[i % len(vs)]
        f = fam if fam != "mixed" else rng.choice(["neg_add", "minus_right", "divide_right", "rec_mul", "neg", "rec", "npow", "root", "explog", "add_nest", "mul_nest"])
        if f == "neg_add":
            t = ("Negation", ("Add", t, v))
        elif f == "minus_right":
            t = ("Minus", v, t)
        elif f == "minus_left":
            t = ("Minus", t, v)
        elif f == "divide_right":
            t = ("Divide", v, t)
        elif f == "divide_left":
            t = ("Divide", t, v)
        elif f == "rec_mul":
            t = ("Reciprocal", ("Multiply", t, v))
        elif f == "neg":
            t = ("Negation", t)
        elif f == "rec":
            t = ("Reciprocal", t)
        elif f == "npow":
            t = ("NthPower", t, 1 + i % 3)
        elif f == "root":
            t = ("NthRoot", t, 1 + i % 3)
        elif f == "explog":
            t = ("Exponential", ("Logarithm", t, 2), 2) if i % 2 else ("Logarithm", ("Exponential", t, None), None)
        elif f == "add_nest":
            t = ("Add", v, t, ("Constant", i % 3))
        elif f == "mul_nest":
            t = ("Multiply", v, t, ("Constant", 1 + i % 2))
        elif f == "pow_pow":
            t = ("Power", t, v)
        elif f == "prod_sums":          # distribution bait: constant * (a+b) * (c+d) * ...
            t = ("Multiply", t, ("Add", v, vs[(i + 1) % len(vs)]))
        elif f == "neg_prod_sums":
            t = ("Multiply", ("Negation", ("Add", v, vs[(i + 1) % len(vs)])), t)
        elif f == "sum_prods":
            t = ("Add", ("Multiply", v, t), ("Multiply", ("Constant", 2), vs[(i + 1) % len(vs)]))
        elif f == "rec_sums":
            t = ("Reciprocal", ("Add", t, v))
        elif f == "log_sum":
            t = ("Add", ("Logarithm", v, [None, 2, 10][i % 3]), t)
        elif f == "exp_prod":
            t = ("Multiply", ("Exponential", v, [None, 2][i % 2]), t, ("NthPower", v, 1 + i % 3))
    return t, fam


# ---- single mutations (C12) ---------------------------------------------------------------------

SIBLING = {"Sine": "Cosine", "Cosine": "Sine", "Add": "Multiply", "Multiply": "Add", "NthPower": "NthRoot",
           "NthRoot": "NthPower", "Minus": "Divide", "Divide": "Power", "Power": "Minus", "Negation": "Reciprocal",
           "Reciprocal": "Negation", "Exponential": "Logarithm", "Logarithm": "Exponential"}


def mutate_once(rng, t):
    """One semantic-equality-breaking structural change somewhere in t (or None if not possible)."""
    subs = list(_paths(t))
    rng.shuffle(subs)
    for path in subs[:8]:
        node = _at(t, path)
        m = _mutate_node(rng, node)
        if m is not None and not S.spec_equal(m, node):
            return _replace(t, path, m)
    return None


def _paths(t, pre=()):
    yield pre
    for i, c in enumerate(S.children(t)):
        yield from _paths(c, pre + (i,))


def _at(t, path):
    for i in path:
        t = S.children(t)[i]
    return t


def _replace(t, path, new):
    if not path:
        return new
    kids = list(S.children(t))
    kids[path[0]] = _replace(kids[path[0]], path[1:], new)
    return S.with_children(t, kids)


def _mutate_node(rng, node):
    k = node[0]
    choices = []
    if k == "Constant":
        v = node[1]
        choices.append(("Constant", v + 1))
        choices.append(("Constant", -v if v != 0 else 0.5))
        choices.append(("Variable", "c"))
        # numerically close but different values (next float, 1e-12 and 1e-9 relative, tiny absolute)
        fv = float(v)
        choices.append(("Constant", math.nextafter(fv, math.inf)))
        choices.append(("Constant", fv * (1 + 1e-12) if fv != 0 else 1e-300))
        choices.append(("Constant", fv * (1 - 5e-10) if fv != 0 else -5e-324))
        choices.append(("Constant", fv + 1e-9))
        if abs(fv) >= 2 ** 53:
            # beyond 2**53 neighbouring integers share a double: the float spelling is equal only when exact
            choices.append(("Constant", fv))
            choices.append(("Constant", int(fv) + (1 if int(fv) == v else 0)))
            choices.append(("Constant", int(v) - 1))
    elif k == "Variable":
        choices.append(("Variable", node[1] + "_"))
        choices.append(("Variable", node[1].upper() if node[1].upper() != node[1] else node[1].lower() + "q"))
        choices.append(("Constant", 1))
    elif k in S.POWN:
        n = S.int_n(node[2])
        choices.append((k, node[1], n + 1))
        if n > 1:
            choices.append((k, node[1], n - 1))
        choices.append((SIBLING[k], node[1], node[2]))
    elif k in S.BASED:
        b = S.base_value(node[2])
        choices.append((k, node[1], b + 1))
        choices.append((k, node[1], math.nextafter(float(b), math.inf)))
        choices.append((k, node[1], float(b) * (1 + 1e-10)))
        choices.append((k, node[1], b * 0.5 if b * 0.5 != 1 else 0.75))
        if not (k == "Exponential" and b == 1):
            choices.append((SIBLING[k], node[1], node[2]))
    elif k in S.UNARY:
        choices.append((SIBLING[k], node[1]))
        choices.append(node[1])
    elif k in S.BINARY:
        if not S.spec_equal(node[1], node[2]):
            choices.append((k, node[2], node[1]))
        choices.append((SIBLING[k], node[1], node[2]))
        choices.append(("Add", node[1], node[2]))
    else:
        kids = list(node[1:])
        choices.append((SIBLING[k],) + tuple(kids))
        choices.append((k,) + tuple(kids) + (("Constant", 0),))
        choices.append((k,) + tuple(kids) + (("Variable", "x"),))
        if kids:
            i = rng.randrange(len(kids))
            choices.append((k,) + tuple(kids[:i] + kids[i + 1:]))
            choices.append((k,) + tuple(kids) + (kids[i],))
        if len(kids) >= 2:
            i, j = rng.sample(range(len(kids)), 2)
            if not S.spec_equal(kids[i], kids[j]):
                sw = list(kids)
                sw[i], sw[j] = sw[j], sw[i]
                choices.append((k,) + tuple(sw))
        if len(kids) == 2:
            choices.append(("Minus", kids[0], kids[1]))
    return rng.choice(choices) if choices else None


def respell(rng, t):
    """Equal spec with int/float spellings changed (2 <-> 2.0, n = 3 <-> 3.0, base None <-> e)."""
    k = t[0]
    if k == "Constant":
        v = t[1]
        if isinstance(v, int) and not isinstance(v, bool) and abs(v) < 2 ** 50 and rng.random() < 0.5:
            return (k, float(v))
        if isinstance(v, float) and v.is_integer() and abs(v) < 2 ** 50 and rng.random() < 0.5:
            return (k, int(v))
        return t
    if k == "Variable":
        return t
    kids = [respell(rng, c) for c in S.children(t)]
    t2 = S.with_children(t, kids)
    if k in S.POWN and rng.random() < 0.5:
        n = t2[2]
        n = float(n) if isinstance(n, int) else int(n)
        return (k, t2[1], n)
    if k in S.BASED and rng.random() < 0.5:
        b = t2[2]
        if b is None:
            b = math.e
        elif b == math.e:
            b = None
        elif isinstance(b, int):
            b = float(b)
        elif isinstance(b, float) and b.is_integer():
            b = int(b)
        return (k, t2[1], b)
    return t2


# ---- explicit sharing ----------------------------------------------------------------------------

def with_sharing(rng, t, times=None):
    """Copies some sub-term of t over other positions, so that a DAG build shares the object and a
    variable reaches the root along several paths."""
    times = times if times is not None else rng.randint(1, 3)
    for _ in range(times):
        paths = [p for p in _paths(t) if p]
        if len(paths) < 2:
            return t
        src = _at(t, rng.choice(paths))
        if S.size(src) > 12:
            continue
        dst = rng.choice(paths)
        t = _replace(t, dst, src)
    return t


def repeated_variable_tree(rng, size, var="x", cfg=DEFAULT):
    """Tree in which `var` occurs many times (2-12) in different arguments."""
    c = Cfg(**{**cfg.__dict__, "varnames": [var, var, var, "y"], "p_var": 0.8})
    return friendly_tree(rng, size, c)


def poly_exact_tree(rng, size):
    """Polynomial fragment with leaves k/4, |k| <= 32 and small degree."""
    consts = [k / 4 for k in range(-32, 33) if k % 4] + list(range(-8, 9))
    c = Cfg(kinds=("Add", "Minus", "Negation", "Multiply", "NthPower"), consts=consts, max_n=3, float_n=0.0,
            varnames=["x", "y", "z"], max_arity=3)
    return rand_tree(rng, size, c)


POLY_EXACT_VALUES = [k / 4 for k in range(-32, 33)] + [-3, 2, 5, -1, 0, 7]


def collision_twins(rng, names, values=None):
    """Two points that differ only in one coordinate being -1 in one and -2 in the other: hash(-1) == hash(-2)
    in CPython, so anything keyed by a hash (rather than by the object) confuses them."""
    values = values or POINT_VALUES
    names = list(names)
    if not names:
        return []
    base = {nm: rng.choice(values) for nm in names}
    k = rng.choice(names)
    a, b = dict(base), dict(base)
    flt = rng.random() < 0.5
    a[k], b[k] = (-1.0, -2.0) if flt else (-1, -2)
    return [a, b] if rng.random() < 0.5 else [b, a]
