"""G-hist: operation histories over a pool of expressions that share sub-expression objects.

A history is a JSON-able dict:
    {"members": [pool-spec, ...],   initial pool; a pool-spec may contain ["Ref", i] = "the object of member i"
     "points":  [point, ...],
     "ops":     [op, ...]}
Every op is executed on the long-lived pooled objects; `twin_outcome` performs the same op on freshly
built, never-used copies (replaying only the object's own documented construction chain).
"""
from __future__ import annotations
import random

from . import gen as G
from . import hooks
from . import monitors as M
from . import reflect as RF
from . import spec as S


# ---- pool specs ----------------------------------------------------------------------------------

def expand(ps, full):
    """pool-spec -> ordinary spec, resolving ["Ref", i] through the list of full specs."""
    if ps[0] == "Ref":
        return full[ps[1]]
    k = ps[0]
    if k in S.LEAVES:
        return ps
    kids = [expand(c, full) for c in _pchildren(ps)]
    return _pwith(ps, kids)


def _pchildren(ps):
    k = ps[0]
    if k in S.UNARY or k in S.POWN or k in S.BASED:
        return (ps[1],)
    if k in S.BINARY:
        return (ps[1], ps[2])
    if k in S.NARY:
        return tuple(ps[1:])
    return ()


def _pwith(ps, kids):
    k = ps[0]
    if k in S.UNARY:
        return (k, kids[0])
    if k in S.POWN or k in S.BASED:
        return (k, kids[0], ps[2])
    if k in S.BINARY:
        return (k, kids[0], kids[1])
    return (k,) + tuple(kids)


def pspec_to_json(ps):
    if ps[0] == "Ref":
        return ["Ref", ps[1]]
    k = ps[0]
    if k in S.LEAVES:
        return S.to_json(ps)
    j = S.to_json(_pwith(ps, [("Constant", 0)] * len(_pchildren(ps)))) if False else None
    kids = [pspec_to_json(c) for c in _pchildren(ps)]
    if k in S.UNARY:
        return [k, kids[0]]
    if k in S.POWN:
        return [k, kids[0], S._num_to_json(ps[2])]
    if k in S.BASED:
        return [k, kids[0], None if ps[2] is None else S._num_to_json(ps[2])]
    if k in S.BINARY:
        return [k, kids[0], kids[1]]
    return [k] + kids


def pspec_from_json(j):
    if j[0] == "Ref":
        return ("Ref", j[1])
    k = j[0]
    if k in S.LEAVES:
        return S.from_json(j)
    if k in S.UNARY:
        return (k, pspec_from_json(j[1]))
    if k in S.POWN:
        return (k, pspec_from_json(j[1]), S._num_from_json(j[2]))
    if k in S.BASED:
        return (k, pspec_from_json(j[1]), None if j[2] is None else S._num_from_json(j[2]))
    if k in S.BINARY:
        return (k, pspec_from_json(j[1]), pspec_from_json(j[2]))
    return (k,) + tuple(pspec_from_json(c) for c in j[1:])


def build_pspec(ps, objs):
    """Builds through the public constructors, plugging pooled *objects* in for Refs."""
    import smoothmath.expression as E
    if ps[0] == "Ref":
        return objs[ps[1]]
    k = ps[0]
    if k == "Constant":
        return E.Constant(ps[1])
    if k == "Variable":
        return E.Variable(ps[1])
    kids = [build_pspec(c, objs) for c in _pchildren(ps)]
    cls = getattr(E, k)
    if k in S.UNARY:
        return cls(kids[0])
    if k in S.POWN:
        return cls(kids[0], n=ps[2])
    if k in S.BASED:
        return cls(kids[0]) if ps[2] is None else cls(kids[0], base=ps[2])
    if k in S.BINARY:
        return cls(kids[0], kids[1])
    return cls(*kids)


# ---- generation ----------------------------------------------------------------------------------

HCFG = G.Cfg(varnames=["x", "y"], max_n=4, consts=[0, 1, -1, 2, 0.5, 3, -2, 1.5], bases=[None, 2, 0.5, 10], max_arity=3)


def gen_member(rng, pool_size, allow_ref=True):
    """A new pool member; with probability ~0.7 it embeds existing members as shared objects."""
    if pool_size == 0 or not allow_ref or rng.random() < 0.3:
        if rng.random() < 0.35:
            return G.rule_case(rng, HCFG)                     # every rewrite rule gets traffic inside histories
        return G.rand_tree(rng, rng.randint(1, 7), HCFG)
    ref = lambda: ("Ref", rng.randrange(pool_size))
    small = lambda: G.rand_tree(rng, rng.randint(1, 3), HCFG)
    r = rng.random()
    if r < 0.25:
        k = rng.choice(S.NARY)
        kids = [ref() if rng.random() < 0.6 else small() for _ in range(rng.randint(2, 4))]
        if not any(c[0] == "Ref" for c in kids):
            kids[0] = ref()
        return (k,) + tuple(kids)
    if r < 0.5:
        k = rng.choice(S.BINARY)
        a, b = (ref(), small()) if rng.random() < 0.5 else (small(), ref())
        if rng.random() < 0.3:
            a, b = ref(), ref()
        return (k, a, b)
    if r < 0.65:
        return (rng.choice(S.UNARY), ref())
    if r < 0.8:
        return (rng.choice(S.POWN), ref(), rng.choice([1, 2, 3, 2.0]))
    if r < 0.9:
        return (rng.choice(S.BASED), ref(), rng.choice([None, 2, 0.5]))
    i = rng.randrange(pool_size)
    return ("Add", ("Ref", i), ("Multiply", ("Constant", rng.choice([0, 2])), ("Ref", i)))


def gen_points(rng):
    vals = [0.5, 1.5, 2.0, -1.5, 0.25, 3.0, -0.5, 1.0, 2, 0, -2.0, 0.75]
    pts = []
    pts.append({"x": rng.choice([1.5, 2.0, 0.5, 3.0]), "y": rng.choice([0.5, 2.0, 1.5, 0.25])})
    pts.append({"y": rng.choice(vals), "x": rng.choice(vals)})
    pts.append({"x": rng.choice([0, -1.5, -2.0, 0.0]), "y": rng.choice([0, -0.5, 1.0])})
    pts.append({"x": rng.choice(vals)})                       # y missing
    pts.append({"x": rng.choice([2, 3, 1]), "y": rng.choice([2, 1, 3]), "extra": 7.0})
    if rng.random() < 0.5:
        pts.append({"y": rng.choice(vals)})                   # x missing
    if rng.random() < 0.5:
        pts += G.collision_twins(rng, ["x", "y"], vals)       # hash(-1) == hash(-2)
    return pts


OP_WEIGHTS = {
    "at": 22, "at_number": 5, "compose": 10, "normalize": 6,
    "partial_new": 8, "partial_at": 14, "as_expression": 7,
    "derivative_new": 3, "derivative_at": 4,
    "differential_new": 4, "differential_component": 4, "differential_at": 4, "component_at": 5,
    "located_new": 5, "located_component": 5,
}


def gen_history(rng, nops, scripted=None):
    members = [gen_member(rng, i) for i in range(rng.randint(2, 4))]
    npool = len(members)
    points = gen_points(rng)
    ops = []
    ndobj = 0          # derivative-like objects created so far
    kinds = {}         # index -> kind of derivative-like object
    names = list(OP_WEIGHTS)
    weights = [OP_WEIGHTS[n] for n in names]
    while len(ops) < nops:
        k = rng.choices(names, weights)[0]
        e = rng.randrange(npool)
        p = rng.randrange(len(points))
        var = rng.choice(["x", "y", "x", "y", "q"])
        spell = rng.random() < 0.5
        if k == "at":
            ops.append({"op": "at", "e": e, "p": p})
        elif k == "at_number":
            ops.append({"op": "at_number", "e": e, "v": rng.choice([1.5, -2.0, 0, 2, 0.5])})
        elif k == "compose":
            if npool < 14:
                ops.append({"op": "compose", "pspec": pspec_to_json(gen_member(rng, npool))})
                npool += 1
        elif k == "normalize":
            join = rng.random() < 0.4 and npool < 14
            ops.append({"op": "normalize", "e": e, "join": join})
            npool += 1 if join else 0
        elif k == "partial_new":
            ops.append({"op": "partial_new", "e": e, "var": var, "early": rng.random() < 0.4, "as_name": spell})
            kinds[ndobj] = "partial"; ndobj += 1
        elif k == "derivative_new":
            ops.append({"op": "derivative_new", "e": e, "early": rng.random() < 0.4})
            kinds[ndobj] = "derivative"; ndobj += 1
        elif k == "differential_new":
            ops.append({"op": "differential_new", "e": e, "early": rng.random() < 0.4})
            kinds[ndobj] = "differential"; ndobj += 1
        elif k == "located_new":
            ops.append({"op": "located_new", "e": e, "p": p})
            kinds[ndobj] = "located"; ndobj += 1
        else:
            want = {"partial_at": "partial", "as_expression": ("partial", "derivative"), "derivative_at": "derivative",
                    "differential_component": "differential", "differential_at": "differential", "component_at": "differential",
                    "located_component": "located"}[k]
            cands = [i for i, kk in kinds.items() if (kk in want if isinstance(want, tuple) else kk == want)]
            if not cands:
                continue
            d = rng.choice(cands)
            if k == "partial_at":
                ops.append({"op": "partial_at", "d": d, "p": p})
            elif k == "as_expression":
                join = rng.random() < 0.5 and npool < 14
                ops.append({"op": "as_expression", "d": d, "join": join})
                npool += 1 if join else 0
            elif k == "derivative_at":
                if rng.random() < 0.5:
                    ops.append({"op": "derivative_at", "d": d, "p": p})
                else:
                    ops.append({"op": "derivative_at", "d": d, "v": rng.choice([1.5, -2.0, 0, 2, 0.5])})
            elif k == "differential_component":
                ops.append({"op": "differential_component", "d": d, "var": var, "as_name": spell})
                kinds[ndobj] = "partial"; ndobj += 1
            elif k == "differential_at":
                ops.append({"op": "differential_at", "d": d, "p": p})
                kinds[ndobj] = "located"; ndobj += 1
            elif k == "component_at":
                ops.append({"op": "component_at", "d": d, "var": var, "p": p, "as_name": spell})
            elif k == "located_component":
                ops.append({"op": "located_component", "d": d, "var": var, "as_name": spell})
    # scripted probe: the same expression queried through the same kind of object at the two hash-colliding twin points
    twins = [i for i, p in enumerate(points) if p.get("x") in (-1, -2, -1.0, -2.0) or p.get("y") in (-1, -2, -1.0, -2.0)]
    if len(twins) >= 2 and rng.random() < 0.8:
        e = rng.randrange(min(npool, len(members) + 2))
        var = rng.choice(["x", "y"])
        probe = []
        kind = rng.choice(["located", "located", "differential", "partial", "at"])
        for tp in twins[-2:]:
            if kind == "located":
                probe += [{"op": "located_new", "e": e, "p": tp}, {"op": "located_component", "d": ndobj, "var": var, "as_name": True}]
                ndobj += 1
            elif kind == "differential":
                probe += [{"op": "differential_new", "e": e, "early": False}, {"op": "differential_at", "d": ndobj, "p": tp},
                          {"op": "located_component", "d": ndobj + 1, "var": var, "as_name": False}]
                ndobj += 2
            elif kind == "partial":
                probe += [{"op": "partial_new", "e": e, "var": var, "early": rng.random() < 0.5, "as_name": True}, {"op": "partial_at", "d": ndobj, "p": tp}]
                ndobj += 1
            else:
                probe += [{"op": "at", "e": e, "p": tp}]
        ops += probe          # appended: the numbering of derivative-like objects created before stays valid
    return {"members": [pspec_to_json(m) for m in members], "points": [S.point_to_json(p) for p in points], "ops": ops}


# ---- execution -----------------------------------------------------------------------------------

class Dead(Exception):
    """An op refers to an object whose creation failed: the op is skipped."""


class History:
    def __init__(self, hist, reuse_points=False):
        self.hist = hist
        self.points = [S.point_from_json(p) for p in hist["points"]]
        self.point_objs = None
        if reuse_points:
            import smoothmath as sm
            self.point_objs = [sm.Point(**p) for p in self.points]
        self.pspecs = []          # pool-specs of members
        self.full = []            # expanded specs
        self.objs = []            # long-lived pooled objects
        self.dobjs = []           # long-lived derivative-like objects (None if creation failed)
        self.recipes = []         # how a fresh twin of dobjs[i] is made
        self.log = []             # (op, outcome brief)
        for mj in hist["members"]:
            ps = pspec_from_json(mj)
            self._add_member(ps)

    def _add_member(self, ps, obj=None):
        full = expand(ps, self.full)
        if obj is None:
            obj = build_pspec(ps, self.objs)
        self.pspecs.append(ps)
        self.full.append(full)
        self.objs.append(obj)
        return len(self.objs) - 1

    def _add_member_obj(self, obj):
        """A returned expression joins the pool as is."""
        try:
            sp = RF.reflect(obj)
        except RF.ReflectError:
            return None
        self.pspecs.append(sp)
        self.full.append(sp)
        self.objs.append(obj)
        return len(self.objs) - 1

    def point(self, j):
        import smoothmath as sm
        if self.point_objs is not None and not hooks.ST.busy:
            return self.point_objs[j % len(self.points)]
        return sm.Point(**self.points[j % len(self.points)])

    CREATING = ("partial_new", "derivative_new", "differential_new", "located_new", "differential_component", "differential_at")

    def skip(self, op):
        """Keeps the numbering of derivative-like objects in step with the generator when an op is not run."""
        if op["op"] in self.CREATING:
            self.dobjs.append(None)
            self.recipes.append(("skipped",))

    # -- scope filter (must run before the library sees the op) ---------------------------------------
    def scope_ok(self, op, refmodel, varfree_in_scope):
        k = op["op"]
        n = len(self.objs)
        try:
            if k == "compose":
                ps = self._clamp_refs(pspec_from_json(op["pspec"]))
                full = expand(ps, self.full)
                return S.size(full) <= 120 and varfree_in_scope(full)
            if "e" in op:
                i = op["e"] % n
            elif "d" in op:
                if not self.dobjs or self.dobjs[op["d"] % len(self.dobjs)] is None:
                    return True
                i = self.expr_of_recipe(self.recipes[op["d"] % len(self.dobjs)])
            else:
                return True
            full = self.full[i]
            if not varfree_in_scope(full):
                return False
            pts = []
            if "p" in op:
                pts.append(self.points[op["p"] % len(self.points)])
            rec = self.recipes[op["d"] % len(self.dobjs)] if "d" in op and self.dobjs else None
            while rec is not None and rec[0] in ("component", "located_from"):
                if rec[0] == "located_from":
                    pts.append(self.points[rec[2] % len(self.points)])
                rec = rec[1]
            if "v" in op:
                vs = sorted(S.variables(full))
                pts.append({vs[0]: op["v"]} if len(vs) == 1 else {})
            for p in pts:
                if refmodel.NORMAL.evaluate(full, p).oos:
                    return False
            return True
        except Exception:
            return False

    # -- one op on the long-lived objects ---------------------------------------------------------
    def run(self, op):
        """Returns (Outcome, twin_thunk) where twin_thunk() performs the same op on fresh copies."""
        import smoothmath as sm
        import smoothmath.expression as E
        k = op["op"]
        V = lambda: (op["var"] if op.get("as_name") else E.Variable(op["var"]))
        if k == "at":
            e = self.objs[op["e"] % len(self.objs)]
            i = op["e"] % len(self.objs)
            out = M.call(e.at, self.point(op["p"]))
            return out, lambda: M.call(self.fresh_expr(i).at, self.point(op["p"]))
        if k == "at_number":
            i = op["e"] % len(self.objs)
            out = M.call(self.objs[i].at, op["v"])
            return out, lambda: M.call(self.fresh_expr(i).at, op["v"])
        if k == "compose":
            ps = pspec_from_json(op["pspec"])
            ps = self._clamp_refs(ps)
            out = M.call(lambda: build_pspec(ps, self.objs), numeric=False)
            if out.kind == "obj":
                self._add_member(ps, out.value)
            full = expand(ps, self.full) if out.kind != "obj" else self.full[-1]
            return out, lambda: M.call(lambda: S.build(full, "tree"), numeric=False)
        if k == "normalize":
            i = op["e"] % len(self.objs)
            out = M.call(self.objs[i]._normalize, numeric=False)
            if out.kind == "obj" and op.get("join"):
                self._add_member_obj(out.value)
            return out, lambda: M.call(self.fresh_expr(i)._normalize, numeric=False)
        if k == "partial_new":
            i = op["e"] % len(self.objs)
            rec = ("partial", i, op["var"], bool(op["early"]), bool(op.get("as_name")), False)
            out = M.call(lambda: sm.Partial(self.objs[i], V(), compute_early=op["early"]), numeric=False)
            self._add_dobj(out, rec)
            return out, lambda: M.call(lambda: self.fresh_dobj(rec), numeric=False)
        if k == "derivative_new":
            i = op["e"] % len(self.objs)
            rec = ("derivative", i, bool(op["early"]), False)
            out = M.call(lambda: sm.Derivative(self.objs[i], compute_early=op["early"]), numeric=False)
            self._add_dobj(out, rec)
            return out, lambda: M.call(lambda: self.fresh_dobj(rec), numeric=False)
        if k == "differential_new":
            i = op["e"] % len(self.objs)
            rec = ("differential", i, bool(op["early"]))
            out = M.call(lambda: sm.Differential(self.objs[i], compute_early=op["early"]), numeric=False)
            self._add_dobj(out, rec)
            return out, lambda: M.call(lambda: self.fresh_dobj(rec), numeric=False)
        if k == "located_new":
            i = op["e"] % len(self.objs)
            rec = ("located", i, op["p"])
            out = M.call(lambda: sm.LocatedDifferential(self.objs[i], self.point(op["p"])), numeric=False)
            self._add_dobj(out, rec)
            return out, lambda: M.call(lambda: self.fresh_dobj(rec), numeric=False)
        try:
            d, rec = self._dobj(op["d"])
        except Dead:
            self.skip(op)
            raise
        if k == "partial_at":
            out = M.call(d.at, self.point(op["p"]))
            return out, lambda: M.call(lambda: self.fresh_dobj(rec).at(self.point(op["p"])))
        if k == "as_expression":
            out = M.call(d.as_expression, numeric=False)
            # as_expression() switches a late object to its symbolic path: part of the object's own chain
            idx = op["d"] % len(self.dobjs)
            self.recipes[idx] = self._mark_expr_called(rec)
            if out.kind == "obj" and op.get("join"):
                self._add_member_obj(out.value)
            return out, lambda: M.call(lambda: self.fresh_dobj(rec).as_expression(), numeric=False)
        if k == "derivative_at":
            if "v" in op:
                out = M.call(d.at, op["v"])
                return out, lambda: M.call(lambda: self.fresh_dobj(rec).at(op["v"]))
            out = M.call(d.at, self.point(op["p"]))
            return out, lambda: M.call(lambda: self.fresh_dobj(rec).at(self.point(op["p"])))
        if k == "differential_component":
            nrec = ("component", rec, op["var"], bool(op.get("as_name")), False)
            out = M.call(lambda: d.component(V()), numeric=False)
            self._add_dobj(out, nrec)
            return out, lambda: M.call(lambda: self.fresh_dobj(nrec), numeric=False)
        if k == "differential_at":
            nrec = ("located_from", rec, op["p"])
            out = M.call(lambda: d.at(self.point(op["p"])), numeric=False)
            self._add_dobj(out, nrec)
            return out, lambda: M.call(lambda: self.fresh_dobj(nrec), numeric=False)
        if k == "component_at":
            out = M.call(lambda: d.component_at(V(), self.point(op["p"])))
            return out, lambda: M.call(lambda: self.fresh_dobj(rec).component_at(V(), self.point(op["p"])))
        if k == "located_component":
            out = M.call(lambda: d.component(V()))
            return out, lambda: M.call(lambda: self.fresh_dobj(rec).component(V()))
        raise ValueError(k)

    def _clamp_refs(self, ps):
        if ps[0] == "Ref":
            return ("Ref", ps[1] % len(self.objs))
        if ps[0] in S.LEAVES:
            return ps
        return _pwith(ps, [self._clamp_refs(c) for c in _pchildren(ps)])

    def _add_dobj(self, out, rec):
        self.dobjs.append(out.value if out.kind == "obj" else None)
        self.recipes.append(rec)

    def _dobj(self, idx):
        if not self.dobjs:
            raise Dead
        i = idx % len(self.dobjs)
        if self.dobjs[i] is None:
            raise Dead
        return self.dobjs[i], self.recipes[i]

    @staticmethod
    def _mark_expr_called(rec):
        if rec[0] == "partial":
            return rec[:5] + (True,)
        if rec[0] == "derivative":
            return rec[:3] + (True,)
        if rec[0] == "component":
            return rec[:4] + (True,)
        return rec

    # -- fresh, never-used copies --------------------------------------------------------------------
    def fresh_expr(self, i):
        return S.build(self.full[i], "tree")

    def fresh_dobj(self, rec):
        import smoothmath as sm
        import smoothmath.expression as E
        k = rec[0]
        if k == "partial":
            _, i, var, early, as_name, called = rec
            o = sm.Partial(self.fresh_expr(i), var if as_name else E.Variable(var), compute_early=early)
            if called:
                o.as_expression()
            return o
        if k == "derivative":
            _, i, early, called = rec
            o = sm.Derivative(self.fresh_expr(i), compute_early=early)
            if called:
                o.as_expression()
            return o
        if k == "differential":
            _, i, early = rec
            return sm.Differential(self.fresh_expr(i), compute_early=early)
        if k == "located":
            _, i, p = rec
            return sm.LocatedDifferential(self.fresh_expr(i), self.point(p))
        if k == "component":
            _, drec, var, as_name, called = rec
            o = self.fresh_dobj(drec).component(var if as_name else E.Variable(var))
            if called:
                o.as_expression()
            return o
        if k == "located_from":
            _, drec, p = rec
            return self.fresh_dobj(drec).at(self.point(p))
        raise ValueError(k)

    def expr_of_recipe(self, rec):
        """Index of the pooled expression a derivative-like object was made from."""
        while rec[0] in ("component", "located_from"):
            rec = rec[1]
        if rec[0] == "skipped":
            raise Dead
        return rec[1]
