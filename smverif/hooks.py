"""Instrumentation layer: wrappers installed on the *imported* library (no source edits).

Active only when the environment variable SMOOTHMATH_VERIF is "1" (MANIFEST.hooks.guard); with the
guard off install() does nothing and the library runs untouched.

Wrappers never change behaviour: they call the original, return its result / re-raise its exception
unchanged and record into process-local state.  Oracle calls made by monitors run on fresh objects
rebuilt from reflected specs, never on the object under observation.
"""
from __future__ import annotations
import functools
import logging
import os
import sys
import traceback
from collections import Counter

from . import reflect as R
from . import spec as S

GUARD = "SMOOTHMATH_VERIF"

STRUCT_FIELDS = {"_inner", "_left", "_right", "_inners", "_parameter", "value", "name", "_variable_names",
                 "_coordinates", "_original_expression", "_variable_name", "_point", "_numeric_partials",
                 "_synthetic_partials", "_partial"}


class State:
    def __init__(self):
        self.installed = set()
        self.counts = Counter()          # hook invocation counters
        self.busy = 0                    # >0 while a monitor makes its own oracle calls
        # M-RW
        self.rw_mode = "off"             # off | count | specs (rule sites reflected) | forms (whole forms reflected)
        self.rw_events = []              # current event log (list of tuples)
        self.rw_depth = 0                # nesting of _take_reduction_step
        self.rw_fr_depth = 0             # nesting of _fully_reduce
        self.rw_skip_forms = False
        self.rw_form_limit = 500
        self.rw_rules_fired = Counter()
        self.rw_rules_seen = set()
        self.warnings = []
        # M-MEMO
        self.memo_on = False
        self.memo_hits = 0
        self.memo_checked = 0
        self.memo_viol = []
        self.memo_every = 1
        self.memo_max_size = 80
        # M-MUT
        self.mut_on = False
        self.mut_events = []
        self.mut_depth = 0
        # M-VARS
        self.vars_on = False
        self.vars_checked = 0
        self.vars_viol = []
        self.vars_memo = {}
        self.vars_depth = 0
        # M-ROUTE
        self.routes = Counter()
        self.last_route = None
        # M-ACC (accumulator log)
        self.acc_on = False
        self.acc_log = []


ST = State()


def enabled():
    return os.environ.get(GUARD) == "1"


class busy:
    def __enter__(self):
        ST.busy += 1

    def __exit__(self, *a):
        ST.busy -= 1


# ---------------------------------------------------------------------------------------------------

def _lib():
    import smoothmath
    import smoothmath.expression as E
    import smoothmath._private.base_expression as base
    import smoothmath._private.base_expression.expression as be
    import smoothmath._private.math_functions as mf
    import smoothmath._private.accumulators as acc
    import smoothmath._private.partial as pa
    import smoothmath._private.point as pt
    return smoothmath, E, base, be, mf, acc, pa, pt


def concrete_classes():
    _, E, *_ = _lib()
    return [getattr(E, n) for n in S.ALL]


def defining_classes(attr):
    """Every library class in the MRO of a concrete expression class that defines `attr` itself (hook points
    are found by introspection so that moving a method to another base class does not lose the hook)."""
    out = []
    for cls in concrete_classes():
        for k in cls.__mro__:
            if k is object or not getattr(k, "__module__", "").startswith("smoothmath"):
                continue
            if attr in k.__dict__ and k not in out:
                out.append(k)
    return out


def reducer_names():
    """All (class, rule name) pairs found by introspection."""
    out = []
    for cls in concrete_classes():
        for name in sorted(dir(cls)):
            if name.startswith("_reduce_") and callable(getattr(cls, name, None)):
                out.append((cls, name))
    return out


def install(monitors=("math", "route", "rw", "memo", "mut", "vars", "acc")):
    """Installs the requested monitors (idempotent).  Returns the set actually installed."""
    if not enabled():
        return set()
    for m in monitors:
        if m in ST.installed:
            continue
        globals()["_install_" + m]()
        ST.installed.add(m)
    return set(ST.installed)


# ---- M-MATH ----------------------------------------------------------------------------------------

def _install_math():
    *_, mf, _acc, _pa, _pt = _lib()
    import types
    for name, fn in list(vars(mf).items()):
        if isinstance(fn, types.FunctionType) and fn.__module__ == mf.__name__:
            setattr(mf, name, _wrap_math(name, fn))


def _wrap_math(name, fn):
    key = "math." + name
    key_err = key + ".DomainError"

    @functools.wraps(fn)
    def w(*a, **k):
        ST.counts[key] += 1
        try:
            return fn(*a, **k)
        except Exception as e:
            if type(e).__name__ == "DomainError":
                ST.counts[key_err] += 1
            raise
    w.__wrapped_by_smverif__ = True
    return w


# ---- M-ROUTE ---------------------------------------------------------------------------------------

def _install_route():
    sm, *_ = _lib()
    Partial = sm.Partial
    orig = Partial.at

    @functools.wraps(orig)
    def at(self, point):
        route = "numeric" if self.__dict__.get("_synthetic_partial") is None else "symbolic"
        if not ST.busy:
            ST.routes[route] += 1
            ST.last_route = route
        return orig(self, point)
    Partial.at = at


# ---- M-ACC -----------------------------------------------------------------------------------------

def _install_acc():
    *_, acc, _pa, _pt = _lib()
    NPA = acc.NumericPartialsAccumulator
    orig = NPA.add_to

    @functools.wraps(orig)
    def add_to(self, variable, contribution):
        if ST.acc_on and not ST.busy:
            nm = variable if isinstance(variable, str) else getattr(variable, "name", None)
            ST.acc_log.append((id(self), nm, contribution))
            ST.counts["acc.add_to"] += 1
        return orig(self, variable, contribution)
    NPA.add_to = add_to


# ---- M-RW ------------------------------------------------------------------------------------------

class _WarnHandler(logging.Handler):
    def emit(self, record):
        try:
            msg = record.getMessage()
        except Exception:
            msg = str(record.msg)
        ST.warnings.append(msg)
        if ST.rw_mode != "off":
            ST.rw_events.append(("warn", msg))


def _spec(obj):
    try:
        return R.reflect(obj)
    except Exception as e:  # malformed object: keep the evidence
        return ("<unreflectable>", repr(e))


def _install_rw():
    sm, E, base, be, *_ = _lib()
    root = logging.getLogger()
    root.addHandler(_WarnHandler(level=logging.WARNING))
    # individual rules
    for cls, name in reducer_names():
        if name in cls.__dict__:
            setattr(cls, name, _wrap_rule(cls, name, cls.__dict__[name]))
        ST.rw_rules_seen.add(f"{cls.__name__}.{name}")
    for cls in defining_classes("_consolidate_expression_lacking_variables"):
        setattr(cls, "_consolidate_expression_lacking_variables", _wrap_rule(
            cls, "_consolidate_expression_lacking_variables",
            cls.__dict__["_consolidate_expression_lacking_variables"], label="<constant-fold>"))
    # step driver: whole-tree forms at depth 0
    for cls in defining_classes("_take_reduction_step"):
        fn = cls.__dict__["_take_reduction_step"]
        if not getattr(fn, "__isabstractmethod__", False):
            cls._take_reduction_step = _wrap_step(fn)
    for cls in defining_classes("_fully_reduce"):
        cls._fully_reduce = _wrap_fully_reduce(cls.__dict__["_fully_reduce"])
    for cls in defining_classes("_normalize"):
        cls._normalize = _wrap_normalize(cls.__dict__["_normalize"])


def _wrap_rule(cls, name, fn, label=None):
    label = label or f"{cls.__name__}.{name}"

    @functools.wraps(fn)
    def w(self):
        out = fn(self)
        if ST.busy:
            return out
        ST.counts["rw.rule_calls"] += 1
        if out is not None:
            ST.rw_rules_fired[label] += 1
            if ST.rw_mode == "specs":
                ST.rw_events.append(("fire", label, _spec(self), _spec(out)))
            elif ST.rw_mode != "off":
                ST.rw_events.append(("fire", label))
        return out
    return w


def _wrap_step(fn):
    @functools.wraps(fn)
    def w(self):
        if ST.busy:
            return fn(self)
        ST.rw_depth += 1
        try:
            out = fn(self)
        finally:
            ST.rw_depth -= 1
        if ST.rw_depth == 0:
            ST.counts["rw.root_steps"] += 1
            if ST.rw_mode == "forms":
                ST.rw_events.append(("form", out, _spec(out) if not ST.rw_skip_forms else None, out is self))
            elif ST.rw_mode != "off":
                ST.rw_events.append(("form", out))
        return out
    return w


def _wrap_fully_reduce(fn):
    @functools.wraps(fn)
    def w(self):
        if ST.busy:
            return fn(self)
        ST.counts["rw.fully_reduce"] += 1
        outer_depth = ST.rw_depth
        ST.rw_depth = 0          # a nested _fully_reduce (inside the normal-form pass) has its own root
        ST.rw_fr_depth += 1
        outer_skip = ST.rw_skip_forms
        if ST.rw_mode != "off":
            root_spec = None
            if ST.rw_mode == "forms":
                root_spec = _spec(self)
                ST.rw_skip_forms = S.size(root_spec) > ST.rw_form_limit if root_spec[0] != "<unreflectable>" else False
            ST.rw_events.append(("begin", self, ST.rw_fr_depth, root_spec))
        nwarn = len(ST.warnings)
        try:
            out = fn(self)
        finally:
            ST.rw_fr_depth -= 1
            ST.rw_depth = outer_depth
            ST.rw_skip_forms = outer_skip
        if ST.rw_mode != "off":
            ST.rw_events.append(("end", out, ST.rw_fr_depth + 1, len(ST.warnings) > nwarn))
        return out
    return w


def _wrap_normalize(fn):
    @functools.wraps(fn)
    def w(self):
        if ST.busy:
            return fn(self)
        ST.counts["rw.normalize"] += 1
        if ST.rw_mode != "off":
            ST.rw_events.append(("norm_begin", self))
        out = fn(self)
        if ST.rw_mode != "off":
            ST.rw_events.append(("norm_end", self, out))
        return out
    return w


def rw_start(mode="specs"):
    ST.rw_mode = mode
    ST.rw_events = []
    ST.rw_depth = 0


def rw_stop():
    ev = ST.rw_events
    ST.rw_events = []
    ST.rw_mode = "off"
    return ev


# ---- M-MEMO ----------------------------------------------------------------------------------------

def _install_memo():
    for cls in defining_classes("_evaluate"):
        fn = cls.__dict__["_evaluate"]
        if getattr(fn, "__isabstractmethod__", False):
            continue
        cls._evaluate = _wrap_evaluate(fn)


def _bits(v):
    if isinstance(v, float):
        return ("float", v.hex())
    return (type(v).__name__, repr(v))


def _wrap_evaluate(fn):
    @functools.wraps(fn)
    def w(self, point):
        if ST.memo_on and not ST.busy:
            ST.counts["memo.evaluate_calls"] += 1
            cached = self.__dict__.get("_value")
            if cached is not None:
                ST.memo_hits += 1
                if ST.memo_hits % ST.memo_every == 0:
                    _memo_check(self, point, cached)
        return fn(self, point)
    return w


def _memo_check(node, point, cached):
    import smoothmath
    with busy():
        try:
            sp = R.reflect(node)
            if S.size(sp) > ST.memo_max_size:
                return
            fresh = S.build(sp, "tree")
            coords = R.point_dict(point)
            fp = smoothmath.Point(**coords)
            try:
                fresh_out = ("num", _bits(fresh.at(fp)))
            except Exception as e:
                fresh_out = ("raise", type(e).__name__)
            ST.memo_checked += 1
            if fresh_out != ("num", _bits(cached)):
                ST.memo_viol.append({
                    "node": S.to_json(sp), "point": S.point_to_json(coords),
                    "memoised": repr(cached), "fresh": repr(fresh_out)})
        except Exception as e:  # the monitor must never disturb the run
            ST.counts["memo.monitor_errors"] += 1
            ST.counts["memo.monitor_error." + type(e).__name__] += 1


# ---- M-VARS ----------------------------------------------------------------------------------------

def _install_vars():
    for cls in defining_classes("__init__"):
        cls.__init__ = _wrap_init_vars(cls.__dict__["__init__"])


def _wrap_init_vars(fn):
    @functools.wraps(fn)
    def w(self, *a, **k):
        ST.vars_depth += 1
        try:
            fn(self, *a, **k)
        finally:
            ST.vars_depth -= 1
        # judged once, when the outermost __init__ of the object has returned
        if ST.vars_on and not ST.busy and ST.vars_depth == 0 and "_variable_names" in self.__dict__:
            ST.vars_checked += 1
            try:
                truth = R.true_variables(self, ST.vars_memo)
                got = self.__dict__.get("_variable_names")
                if got is None or set(got) != set(truth) or not isinstance(got, (set, frozenset)):
                    ST.vars_viol.append({"node": S.to_json(_spec(self)), "claimed": sorted(map(str, got or [])),
                                         "actual": sorted(map(str, truth))})
            except Exception as e:
                ST.counts["vars.monitor_errors"] += 1
    return w


def vars_reset():
    ST.vars_memo = {}


# ---- M-MUT -----------------------------------------------------------------------------------------

class RecList(list):
    __slots__ = ("_owner",)

    def _rec(self, op):
        if ST.mut_on and not ST.busy:
            ST.mut_events.append(("list." + op, type(getattr(self, "_owner", None)).__name__, _stack()))


def _mk_list_method(name):
    orig = getattr(list, name)

    def m(self, *a, **k):
        self._rec(name)
        return orig(self, *a, **k)
    m.__name__ = name
    return m


for _n in ("append", "extend", "insert", "remove", "pop", "clear", "sort", "reverse", "__setitem__", "__delitem__",
           "__iadd__", "__imul__"):
    setattr(RecList, _n, _mk_list_method(_n))


class RecSet(set):
    def _rec(self, op):
        if ST.mut_on and not ST.busy:
            ST.mut_events.append(("set." + op, "", _stack()))


def _mk_set_method(name):
    orig = getattr(set, name)

    def m(self, *a, **k):
        self._rec(name)
        return orig(self, *a, **k)
    m.__name__ = name
    return m


for _n in ("add", "remove", "discard", "pop", "clear", "update", "intersection_update", "difference_update",
           "symmetric_difference_update", "__ior__", "__iand__", "__isub__", "__ixor__"):
    setattr(RecSet, _n, _mk_set_method(_n))


class RecDict(dict):
    def _rec(self, op):
        if ST.mut_on and not ST.busy:
            ST.mut_events.append(("dict." + op, "", _stack()))


def _mk_dict_method(name):
    orig = getattr(dict, name)

    def m(self, *a, **k):
        self._rec(name)
        return orig(self, *a, **k)
    m.__name__ = name
    return m


for _n in ("__setitem__", "__delitem__", "pop", "popitem", "clear", "update", "setdefault", "__ior__"):
    setattr(RecDict, _n, _mk_dict_method(_n))


def _stack():
    frames = traceback.extract_stack(limit=8)[:-3]
    return [f"{os.path.basename(f.filename)}:{f.lineno}:{f.name}" for f in frames if "smverif" not in f.filename][-4:]


def _recording_setattr(self, name, value):
    if ST.mut_on and not ST.busy and name in STRUCT_FIELDS and name in self.__dict__:
        old = self.__dict__[name]
        ST.mut_events.append(("setattr", type(self).__name__ + "." + name, _stack(), old is value))
    object.__setattr__(self, name, value)


def _recording_delattr(self, name):
    if ST.mut_on and not ST.busy:
        ST.mut_events.append(("delattr", type(self).__name__ + "." + name, _stack()))
    object.__delattr__(self, name)


def _wrap_init_mut(fn):
    @functools.wraps(fn)
    def w(self, *a, **k):
        ST.mut_depth += 1
        try:
            fn(self, *a, **k)
        finally:
            ST.mut_depth -= 1
        if ST.mut_on and ST.mut_depth == 0:
            d = self.__dict__
            cur = d.get("_inners")
            if type(cur) is list:
                rl = RecList(cur)
                rl._owner = self
                object.__setattr__(self, "_inners", rl)
            vn = d.get("_variable_names")
            if type(vn) is set:
                object.__setattr__(self, "_variable_names", RecSet(vn))
    return w


def _install_mut():
    sm, E, base, be, mf, acc, pa, pt = _lib()
    for cls in (be.Expression, sm.Point, sm.Partial, sm.Derivative, sm.Differential, sm.LocatedDifferential):
        cls.__setattr__ = _recording_setattr
        cls.__delattr__ = _recording_delattr
    # in-place containers: after the outermost __init__ of an expression returned, a plain child list / variable-name
    # set is replaced by a recording subclass (same contents, same behaviour)
    for cls in defining_classes("__init__"):
        cls.__init__ = _wrap_init_mut(cls.__dict__["__init__"])
    orig_point = sm.Point.__dict__["__init__"]

    @functools.wraps(orig_point)
    def point_init(self, /, **kwargs):
        orig_point(self, **kwargs)
        if ST.mut_on:
            cur = self.__dict__.get("_coordinates")
            if type(cur) is dict:
                object.__setattr__(self, "_coordinates", RecDict(cur))
    sm.Point.__init__ = point_init


# ---- known-finding neutralisers (used only in attribution re-runs) ---------------------------------

class neutralise:
    """Context manager: switches exactly one mechanism off.  name must be in NEUTRALISERS."""

    def __init__(self, name):
        self.name = name
        self.undo = None

    def __enter__(self):
        self.undo = NEUTRALISERS[self.name]()
        return self

    def __exit__(self, *a):
        self.undo()


def _neutralise_even_root_of_even_power():
    _, E, *_ = _lib()
    cls = E.NthRoot
    name = "_reduce_nth_root_of_mth_power"
    cur = cls.__dict__[name]

    def patched(self):
        inner = self.__dict__.get("_inner")
        try:
            if isinstance(inner, E.NthPower) and self.n % 2 == 0 and inner.n % 2 == 0:
                return None
        except Exception:
            pass
        return cur(self)
    setattr(cls, name, patched)

    def undo():
        setattr(cls, name, cur)
    return undo


def _neutralise_step_budget():
    """The rewriter never gives up (step bound raised from 1000 to 10^6)."""
    *_, = ()
    import smoothmath._private.base_expression.expression as be
    cur = be.REDUCTION_STEPS_BOUND
    be.REDUCTION_STEPS_BOUND = 10 ** 6

    def undo():
        be.REDUCTION_STEPS_BOUND = cur
    return undo


def _neutralise_range_unsafe_nary():
    """n-ary sums and products computed exactly (Fractions) and rounded once: no partial sum / product can leave
    the double range when the result does not."""
    import smoothmath._private.math_functions as mf
    from fractions import Fraction
    cur_add, cur_mul = mf.add, mf.multiply

    def add(*args):
        try:
            return float(sum((Fraction(a) for a in args), Fraction(0)))
        except (ValueError, OverflowError, TypeError):
            return cur_add(*args)

    def multiply(*args):
        try:
            if any(a == 0 for a in args):
                return 0
            out = Fraction(1)
            for a in args:
                out *= Fraction(a)
            return float(out)
        except (ValueError, OverflowError, TypeError):
            return cur_mul(*args)
    mf.add, mf.multiply = add, multiply

    def undo():
        mf.add, mf.multiply = cur_add, cur_mul
    return undo


NEUTRALISERS = {
    "even_root_of_even_power": _neutralise_even_root_of_even_power,
    "unbounded_reduction_steps": _neutralise_step_budget,
    "range_safe_nary": _neutralise_range_unsafe_nary,
}


# ---- M-COV: line coverage of the library through sys.monitoring (LINE events, DISABLE after the first hit) -------------

COV = {"lines": {}, "on": False, "root": None}


def _install_cov():
    import smoothmath
    mon = getattr(sys, "monitoring", None)
    if mon is None:
        return
    root = os.path.dirname(os.path.realpath(smoothmath.__file__))
    COV["root"] = root
    tool = mon.COVERAGE_ID
    try:
        mon.use_tool_id(tool, "smverif-cov")
    except ValueError:
        return
    lines = COV["lines"]

    def on_line(code, line):
        fn = code.co_filename
        if fn.startswith(root):
            lines.setdefault(fn, set()).add(line)
        return mon.DISABLE
    mon.register_callback(tool, mon.events.LINE, on_line)
    mon.set_events(tool, mon.events.LINE)
    COV["on"] = True


def executable_lines(path):
    with open(path) as f:
        src = f.read()
    out = set()

    def walk(co):
        for _, _, ln in co.co_lines():
            if ln is not None:
                out.add(ln)
        for c in co.co_consts:
            if hasattr(c, "co_lines"):
                walk(c)
    walk(compile(src, path, "exec"))
    # the module-level 'from __future__' / docstring lines are executed at import, before the monitor exists
    return out


def coverage_report():
    if not COV["on"]:
        return None
    root = COV["root"]
    rep = {}
    for dirpath, _, files in os.walk(root):
        for fn in files:
            if not fn.endswith(".py"):
                continue
            path = os.path.join(dirpath, fn)
            try:
                ex = executable_lines(path)
            except Exception:
                continue
            hit = COV["lines"].get(path, set())
            body = set()
            # lines inside function bodies only: module-level lines ran at import time, before monitoring started
            with open(path) as f:
                src = f.read()
            top = compile(src, path, "exec")

            def walk(co, inside):
                if inside:
                    for _, _, ln in co.co_lines():
                        if ln is not None and ln != co.co_firstlineno:
                            body.add(ln)
                for c in co.co_consts:
                    if hasattr(c, "co_lines"):
                        walk(c, inside or c.co_name not in ("<module>",) and co.co_name != "<module>" or _is_function(c))
            walk(top, False)
            rel = os.path.relpath(path, root)
            if body:
                rep[rel] = {"executable": len(body), "executed": len(body & hit), "unreached": sorted(body - hit)[:40]}
    return rep


def _is_function(co):
    # class bodies run at import; functions/lambdas/comprehensions run later
    return bool(co.co_flags & 0x0002) or co.co_name in ("<lambda>", "<listcomp>", "<genexpr>", "<dictcomp>", "<setcomp>")
