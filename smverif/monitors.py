"""M-ESC: the client-boundary escape monitor, plus shared route enumeration.

Every public call a workload makes goes through call(): the outcome is classified *after* the reply
and nothing the library raises is swallowed silently.
"""
from __future__ import annotations
import math

from . import spec as S


class Outcome:
    __slots__ = ("kind", "value", "exc_type", "msg")

    def __init__(self, kind, value=None, exc_type=None, msg=None):
        self.kind = kind          # 'num' | 'obj' | 'DomainError' | 'CoordinateMissing' | 'exc' | 'badnum'
        self.value = value
        self.exc_type = exc_type
        self.msg = msg

    @property
    def cls(self):
        """Outcome class used when comparing routes."""
        return self.kind if self.kind != "exc" else "exc:" + str(self.exc_type)

    def brief(self):
        if self.kind == "num":
            return f"num {self.value!r}"
        if self.kind == "badnum":
            return f"badnum {self.value!r} ({self.msg})"
        if self.kind == "obj":
            return f"obj {type(self.value).__name__}"
        if self.kind == "exc":
            return f"exception {self.exc_type}: {self.msg}"
        return f"{self.kind}: {self.msg}"

    def bits(self):
        if self.kind in ("num", "badnum"):
            v = self.value
            if isinstance(v, float):
                return ("float", v.hex())
            return (type(v).__name__, repr(v))
        return (self.cls,)


_ERR = None


def _errors():
    global _ERR
    if _ERR is None:
        import smoothmath
        _ERR = (smoothmath.DomainError, smoothmath.CoordinateMissing)
    return _ERR


def call(fn, *a, numeric=True, **k):
    """Runs fn and classifies what came back.  numeric=True: the reply must be a real finite number."""
    DomainError, CoordinateMissing = _errors()
    try:
        v = fn(*a, **k)
    except DomainError as e:
        return Outcome("DomainError", msg=str(e)[:200])
    except CoordinateMissing as e:
        return Outcome("CoordinateMissing", msg=str(e)[:200])
    except RecursionError:
        raise
    except Exception as e:  # a foreign exception escaped: that is an observation, not a harness failure
        return Outcome("exc", exc_type=type(e).__name__, msg=str(e)[:200])
    if not numeric:
        return Outcome("obj", v)
    if isinstance(v, bool) or not isinstance(v, (int, float)):
        return Outcome("badnum", v, msg=f"result of type {type(v).__name__}")
    if isinstance(v, float) and not math.isfinite(v):
        return Outcome("badnum", v, msg="non-finite result")
    return Outcome("num", v)


# ---- routes to a derivative number ---------------------------------------------------------------

ROUTES_ANY = [
    "partial_late", "partial_early", "partial_late_name", "partial_early_name", "partial_late_after_expr",
    "diff_late_component_at", "diff_early_component_at", "diff_late_component_then_at", "diff_early_component_then_at",
    "diff_late_at_component", "diff_early_at_component", "located", "located_name",
]
ROUTES_ONEVAR = ["derivative_late", "derivative_early", "derivative_late_number", "derivative_early_number"]

NUMERIC_PATH = {"partial_late", "partial_late_name", "diff_late_component_at", "diff_late_component_then_at",
                "diff_late_at_component", "located", "located_name", "derivative_late", "derivative_late_number"}
REVERSE_MODE = {"diff_late_at_component", "located", "located_name"}


def route_call(route, expr, var, point_dict):
    """Performs one route on the given (fresh) expression object; returns Outcome."""
    import smoothmath as sm
    import smoothmath.expression as E
    P = lambda: sm.Point(**point_dict)
    V = lambda: E.Variable(var)
    if route == "partial_late":
        return call(lambda: sm.Partial(expr, V()).at(P()))
    if route == "partial_early":
        return call(lambda: sm.Partial(expr, V(), compute_early=True).at(P()))
    if route == "partial_late_name":
        return call(lambda: sm.Partial(expr, var).at(P()))
    if route == "partial_early_name":
        return call(lambda: sm.Partial(expr, var, compute_early=True).at(P()))
    if route == "partial_late_after_expr":
        def f():
            p = sm.Partial(expr, V())
            p.as_expression()
            return p.at(P())
        return call(f)
    if route == "diff_late_component_at":
        return call(lambda: sm.Differential(expr).component_at(V(), P()))
    if route == "diff_early_component_at":
        return call(lambda: sm.Differential(expr, compute_early=True).component_at(var, P()))
    if route == "diff_late_component_then_at":
        return call(lambda: sm.Differential(expr).component(var).at(P()))
    if route == "diff_early_component_then_at":
        return call(lambda: sm.Differential(expr, compute_early=True).component(V()).at(P()))
    if route == "diff_late_at_component":
        return call(lambda: sm.Differential(expr).at(P()).component(V()))
    if route == "diff_early_at_component":
        return call(lambda: sm.Differential(expr, compute_early=True).at(P()).component(var))
    if route == "located":
        return call(lambda: sm.LocatedDifferential(expr, P()).component(V()))
    if route == "located_name":
        return call(lambda: sm.LocatedDifferential(expr, P()).component(var))
    if route == "derivative_late":
        return call(lambda: sm.Derivative(expr).at(P()))
    if route == "derivative_early":
        return call(lambda: sm.Derivative(expr, compute_early=True).at(P()))
    if route == "derivative_late_number":
        return call(lambda: sm.Derivative(expr).at(point_dict[var]))
    if route == "derivative_early_number":
        return call(lambda: sm.Derivative(expr, compute_early=True).at(point_dict[var]))
    raise ValueError(route)


def routes_for(spec_vars, var, point_dict):
    """Route names applicable to an expression with variables spec_vars, differentiating by var."""
    rs = list(ROUTES_ANY)
    if len(spec_vars) == 1 and var in spec_vars:
        rs += ROUTES_ONEVAR[:2]
        if var in point_dict:
            rs += ROUTES_ONEVAR[2:]
    return rs
