"""M-ESC: the client-boundary escape monitor, plus shared route enumeration.

Every public call a workload makes goes through call(): the outcome is classified *after* the reply
and nothing the library raises is swallowed silently.
"""
from __future__ import annotations
import math

from . import spec as S


class Outcome:
    __slots__ = ("kind", "value", "exc_type", "msg")

    def __init__(self, kind, value=None, exc_type=None, msg=None):
        self.kind = kind          # 'num' | 'obj' | 'DomainError' | 'CoordinateMissing' | 'exc' | 'badnum'
        self.value = value
        self.exc_type = exc_type
        self.msg = msg

    @property
    def cls(self):
        """Outcome class used when comparing routes."""
        return self.kind if self.kind != "exc" else "exc:" + str(self.exc_type)

    def brief(self):
        if self.kind == "num":
            return f"num {self.value!r}"
        if self.kind == "badnum":
            return f"badnum {self.value!r} ({self.msg})"
        if self.kind == "obj":
            return f"obj {type(self.value).__name__}"
        if self.kind == "exc":
            return f"exception {self.exc_type}: {self.msg}"
        return f"{self.kind}: {self.msg}"

    def numbits(self):
        """Bit pattern of the number irrespective of int/float spelling (0 and 0.0 agree)."""
        if self.kind == "num":
            v = self.value
            try:
                f = float(v)
                if f == v:
                    return ("num", (f + 0.0).hex() if f != 0 else "0")
            except OverflowError:
                pass
            return ("num", repr(v))
        return self.bits()

    def bits(self):
        if self.kind in ("num", "badnum"):
            v = self.value
            if isinstance(v, float):
                return ("float", v.hex())
            return (type(v).__name__, repr(v))
        return (self.cls,)


_ERR = None


def _errors():
    global _ERR
    if _ERR is None:
        import smoothmath
        _ERR = (smoothmath.DomainError, smoothmath.CoordinateMissing)
    return _ERR


def call(fn, *a, numeric=True, **k):
    """Runs fn and classifies what came back.  numeric=True: the reply must be a real finite number."""
    DomainError, CoordinateMissing = _errors()
    try:
        v = fn(*a, **k)
    except DomainError as e:
        return Outcome("DomainError", msg=str(e)[:200])
    except CoordinateMissing as e:
        return Outcome("CoordinateMissing", msg=str(e)[:200])
    except RecursionError:
        raise
    except Exception as e:  # a foreign exception escaped: that is an observation, not a harness failure
        return Outcome("exc", exc_type=type(e).__name__, msg=str(e)[:200])
    if not numeric:
        return Outcome("obj", v)
    if isinstance(v, bool) or not isinstance(v, (int, float)):
        return Outcome("badnum", v, msg=f"result of type {type(v).__name__}")
    if isinstance(v, float) and not math.isfinite(v):
        return Outcome("badnum", v, msg="non-finite result")
    return Outcome("num", v)


# ---- routes to a derivative number ---------------------------------------------------------------

ROUTES_ANY = [
    "partial_late", "partial_early", "partial_late_name", "partial_early_name", "partial_late_after_expr",
    "partial_early_after_expr", "component_late_after_expr", "component_early_after_expr",
    "diff_late_component_at", "diff_early_component_at", "diff_late_component_then_at", "diff_early_component_then_at",
    "diff_late_at_component", "diff_early_at_component", "located", "located_name",
]
ROUTES_ONEVAR = ["derivative_late", "derivative_early", "derivative_late_after_expr", "derivative_early_after_expr",
                 "derivative_late_number", "derivative_early_number", "derivative_late_after_expr_number"]

NUMERIC_PATH = {"partial_late", "partial_late_name", "diff_late_component_at", "diff_late_component_then_at",
                "diff_late_at_component", "located", "located_name", "derivative_late", "derivative_late_number"}
REVERSE_MODE = {"diff_late_at_component", "located", "located_name"}


def route_call(route, expr, var, point_dict):
    """Performs one route on the given (fresh) expression object; returns Outcome."""
    import smoothmath as sm
    import smoothmath.expression as E
    P = lambda: sm.Point(**point_dict)
    V = lambda: E.Variable(var)
    if route == "partial_late":
        return call(lambda: sm.Partial(expr, V()).at(P()))
    if route == "partial_early":
        return call(lambda: sm.Partial(expr, V(), compute_early=True).at(P()))
    if route == "partial_late_name":
        return call(lambda: sm.Partial(expr, var).at(P()))
    if route == "partial_early_name":
        return call(lambda: sm.Partial(expr, var, compute_early=True).at(P()))
    if route == "partial_late_after_expr":
        def f():
            p = sm.Partial(expr, V())
            p.as_expression()
            return p.at(P())
        return call(f)
    if route == "diff_late_component_at":
        return call(lambda: sm.Differential(expr).component_at(V(), P()))
    if route == "diff_early_component_at":
        return call(lambda: sm.Differential(expr, compute_early=True).component_at(var, P()))
    if route == "diff_late_component_then_at":
        return call(lambda: sm.Differential(expr).component(var).at(P()))
    if route == "diff_early_component_then_at":
        return call(lambda: sm.Differential(expr, compute_early=True).component(V()).at(P()))
    if route == "diff_late_at_component":
        return call(lambda: sm.Differential(expr).at(P()).component(V()))
    if route == "diff_early_at_component":
        return call(lambda: sm.Differential(expr, compute_early=True).at(P()).component(var))
    if route == "located":
        return call(lambda: sm.LocatedDifferential(expr, P()).component(V()))
    if route == "located_name":
        return call(lambda: sm.LocatedDifferential(expr, P()).component(var))
    if route == "derivative_late":
        return call(lambda: sm.Derivative(expr).at(P()))
    if route == "derivative_early":
        return call(lambda: sm.Derivative(expr, compute_early=True).at(P()))
    if route == "derivative_late_number":
        return call(lambda: sm.Derivative(expr).at(point_dict[var]))
    if route == "derivative_early_number":
        return call(lambda: sm.Derivative(expr, compute_early=True).at(point_dict[var]))
    return Route(route, expr, var).query(point_dict)


def routes_for(spec_vars, var, point_dict):
    """Route names applicable to an expression with variables spec_vars, differentiating by var."""
    rs = list(ROUTES_ANY)
    if len(spec_vars) == 0:
        # Derivative accepts a variable-free expression (its derivative is 0 whatever the point is)
        rs += [r for r in ROUTES_ONEVAR if not r.endswith("_number")]
        if var in point_dict:
            rs += [r for r in ROUTES_ONEVAR if r.endswith("_number")]
    if len(spec_vars) == 1 and var in spec_vars:
        rs += [r for r in ROUTES_ONEVAR if not r.endswith("_number")]
        if var in point_dict:
            rs += [r for r in ROUTES_ONEVAR if r.endswith("_number")]
    return rs


class Route:
    """A route object built once (construction is itself an observed call) and queried at several
    points - the realistic way early objects are used."""

    def __init__(self, route, expr, var):
        import smoothmath as sm
        import smoothmath.expression as E
        self.route = route
        self.var = var
        self.expr = expr
        self.obj = None
        self.built = None
        V = lambda: E.Variable(var)
        r = route
        if r in ("partial_late", "partial_late_after_expr"):
            mk = lambda: sm.Partial(expr, V())
        elif r in ("partial_early", "partial_early_after_expr"):
            mk = lambda: sm.Partial(expr, V(), compute_early=True)
        elif r == "component_late_after_expr":
            mk = lambda: sm.Differential(expr).component(var)
        elif r == "component_early_after_expr":
            mk = lambda: sm.Differential(expr, compute_early=True).component(V())
        elif r == "partial_late_name":
            mk = lambda: sm.Partial(expr, var)
        elif r == "partial_early_name":
            mk = lambda: sm.Partial(expr, var, compute_early=True)
        elif r.startswith("diff_late"):
            mk = lambda: sm.Differential(expr)
        elif r.startswith("diff_early"):
            mk = lambda: sm.Differential(expr, compute_early=True)
        elif r.startswith("located"):
            mk = None
        elif r.startswith("derivative_late"):
            mk = lambda: sm.Derivative(expr)
        elif r.startswith("derivative_early"):
            mk = lambda: sm.Derivative(expr, compute_early=True)
        else:
            raise ValueError(route)
        if mk is not None:
            self.built = call(mk, numeric=False)
            if self.built.kind == "obj":
                self.obj = self.built.value
                if "_after_expr" in r:
                    self.built2 = call(self.obj.as_expression, numeric=False)
                    if self.built2.kind != "obj":
                        self.built = self.built2
                        self.obj = None

    def query(self, point_dict):
        import smoothmath as sm
        import smoothmath.expression as E
        if self.built is not None and self.obj is None:
            return self.built          # construction failed: that is the outcome of this route
        P = lambda: sm.Point(**point_dict)
        V = lambda: E.Variable(self.var)
        o, r, var = self.obj, self.route, self.var
        if r.startswith("partial") or r.startswith("component_"):
            return call(lambda: o.at(P()))
        if r == "diff_late_component_at":
            return call(lambda: o.component_at(V(), P()))
        if r == "diff_early_component_at":
            return call(lambda: o.component_at(var, P()))
        if r == "diff_late_component_then_at":
            return call(lambda: o.component(var).at(P()))
        if r == "diff_early_component_then_at":
            return call(lambda: o.component(V()).at(P()))
        if r == "diff_late_at_component":
            return call(lambda: o.at(P()).component(V()))
        if r == "diff_early_at_component":
            return call(lambda: o.at(P()).component(var))
        if r == "located":
            return call(lambda: sm.LocatedDifferential(self.expr, P()).component(V()))
        if r == "located_name":
            return call(lambda: sm.LocatedDifferential(self.expr, P()).component(var))
        if r in ("derivative_late", "derivative_early", "derivative_late_after_expr", "derivative_early_after_expr"):
            return call(lambda: o.at(P()))
        if r in ("derivative_late_number", "derivative_early_number", "derivative_late_after_expr_number"):
            return call(lambda: o.at(point_dict[var]))
        raise ValueError(r)


SYMBOLIC_PATH = {"partial_early", "partial_early_name", "partial_late_after_expr", "partial_early_after_expr",
                 "component_late_after_expr", "component_early_after_expr", "diff_early_component_at",
                 "diff_early_component_then_at", "diff_early_at_component", "derivative_early", "derivative_early_number",
                 "derivative_late_after_expr", "derivative_early_after_expr", "derivative_late_after_expr_number"}
FORWARD_SYMBOLIC = {"partial_early", "partial_early_name", "partial_late_after_expr", "partial_early_after_expr",
                    "component_late_after_expr", "derivative_early", "derivative_early_number",
                    "derivative_late_after_expr", "derivative_early_after_expr", "derivative_late_after_expr_number"}
REVERSE_SYMBOLIC = {"diff_early_component_at", "diff_early_component_then_at", "diff_early_at_component", "component_early_after_expr"}
