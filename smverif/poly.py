"""Exact polynomial / rational-function arithmetic over Q[x1..xk] for the rational fragment
(Constant, Variable, Add, Minus, Negation, Multiply, Divide, Reciprocal, NthPower).

Two specs denote the same rational function iff num1*den2 == num2*den1 as polynomials, which decides
equality at *all* points at once.
"""
from __future__ import annotations
from fractions import Fraction

from . import spec as S

RATIONAL_KINDS = {"Constant", "Variable", "Add", "Minus", "Negation", "Multiply", "Divide", "Reciprocal", "NthPower"}
MAX_TERMS = 4000


class TooBig(Exception):
    pass


class NotRational(Exception):
    pass


def const(c):
    c = Fraction(c)
    return {(): c} if c != 0 else {}


def var(name):
    return {((name, 1),): Fraction(1)}


def add(p, q):
    out = dict(p)
    for m, c in q.items():
        v = out.get(m, 0) + c
        if v == 0:
            out.pop(m, None)
        else:
            out[m] = v
    return out


def neg(p):
    return {m: -c for m, c in p.items()}


def sub(p, q):
    return add(p, neg(q))


def _mulmono(a, b):
    if not a:
        return b
    if not b:
        return a
    d = dict(a)
    for v, e in b:
        d[v] = d.get(v, 0) + e
    return tuple(sorted(d.items()))


def mul(p, q):
    if len(p) * len(q) > MAX_TERMS * 50:
        raise TooBig
    out = {}
    for m1, c1 in p.items():
        for m2, c2 in q.items():
            m = _mulmono(m1, m2)
            v = out.get(m, 0) + c1 * c2
            if v == 0:
                out.pop(m, None)
            else:
                out[m] = v
    if len(out) > MAX_TERMS:
        raise TooBig
    return out


def power(p, n):
    out = const(1)
    for _ in range(n):
        out = mul(out, p)
    return out


def is_zero(p):
    return not p


def degree(p):
    return max((sum(e for _, e in m) for m in p), default=0)


def diff(p, name):
    out = {}
    for m, c in p.items():
        d = dict(m)
        e = d.get(name, 0)
        if e == 0:
            continue
        if e == 1:
            del d[name]
        else:
            d[name] = e - 1
        mm = tuple(sorted(d.items()))
        out[mm] = out.get(mm, 0) + c * e
    return {m: c for m, c in out.items() if c != 0}


def evaluate(p, point):
    tot = Fraction(0)
    for m, c in p.items():
        t = c
        for v, e in m:
            t *= Fraction(point[v]) ** e
        tot += t
    return tot


def is_rational_spec(s):
    return S.kinds(s) <= RATIONAL_KINDS


def to_rational(s):
    """(num, den) of the rational function denoted by s, or raises NotRational / TooBig /
    ZeroDivisionError (identically zero denominator)."""
    k = s[0]
    if k == "Constant":
        v = s[1]
        if isinstance(v, bool) or not isinstance(v, (int, float)):
            raise NotRational
        return const(v), const(1)
    if k == "Variable":
        return var(s[1]), const(1)
    if k not in RATIONAL_KINDS:
        raise NotRational
    kids = [to_rational(c) for c in S.children(s)]
    if k == "Add":
        n, d = const(0), const(1)
        for (a, b) in kids:
            n, d = _radd(n, d, a, b)
        return n, d
    if k == "Minus":
        (a, b), (c, e) = kids
        return _radd(a, b, neg(c), e)
    if k == "Negation":
        return neg(kids[0][0]), kids[0][1]
    if k == "Multiply":
        n, d = const(1), const(1)
        for (a, b) in kids:
            n, d = mul(n, a), mul(d, b)
        return n, d
    if k == "Divide":
        (a, b), (c, e) = kids
        if is_zero(c):
            raise ZeroDivisionError
        return mul(a, e), mul(b, c)
    if k == "Reciprocal":
        a, b = kids[0]
        if is_zero(a):
            raise ZeroDivisionError
        return b, a
    n_ = S.int_n(s[2])
    if n_ > 12:
        raise TooBig
    return power(kids[0][0], n_), power(kids[0][1], n_)


def _radd(a, b, c, d):
    # always cross-multiplied (no "equal denominators" shortcut): the magnitude-bound recursion (to_rational_abs) must
    # take exactly the same structural decisions as the signed one, and z / -z are equal only in the former
    return add(mul(a, d), mul(c, b)), mul(b, d)


def rational_diff(n, d, name):
    """Derivative of n/d: (n' d - n d') / d^2."""
    return sub(mul(diff(n, name), d), mul(n, diff(d, name))), mul(d, d)


def absolute(p):
    return {m: abs(c) for m, c in p.items()}


def to_rational_abs(s):
    """(num, den) of the same recursion with every coefficient replaced by its absolute value and
    every subtraction by an addition: a monomial-wise bound on the magnitudes *before cancellation*,
    i.e. the scale against which rounding of folded constants has to be measured."""
    k = s[0]
    if k == "Constant":
        return const(abs(Fraction(s[1]))), const(1)
    if k == "Variable":
        return var(s[1]), const(1)
    kids = [to_rational_abs(c) for c in S.children(s)]
    if k in ("Add", "Minus"):
        n, d = const(0), const(1)
        for (a, b) in kids:
            n, d = _radd(n, d, a, b)
        return n, d
    if k == "Negation":
        return kids[0]
    if k == "Multiply":
        n, d = const(1), const(1)
        for (a, b) in kids:
            n, d = mul(n, a), mul(d, b)
        return n, d
    if k == "Divide":
        (a, b), (c, e) = kids
        return mul(a, e), mul(b, c)
    if k == "Reciprocal":
        a, b = kids[0]
        return b, a
    n_ = S.int_n(s[2])
    if n_ > 12:
        raise TooBig
    return power(kids[0][0], n_), power(kids[0][1], n_)


def rational_diff_abs(n, d, name):
    return add(mul(absolute(diff(n, name)), d), mul(n, absolute(diff(d, name)))), mul(d, d)


def same_function(r1, r2, abs1=None, abs2=None, rel_tol=None):
    """r = (num, den).  Exact comparison of num1*den2 with num2*den1; when they differ and abs1/abs2
    (pre-cancellation magnitude bounds) are given, every coefficient of the difference is compared
    with rel_tol times the corresponding coefficient of the bound."""
    (a, b), (c, d) = r1, r2
    lhs = mul(a, d)
    rhs = mul(c, b)
    diff_ = sub(lhs, rhs)
    if not diff_:
        return True, 0.0
    if abs1 is None or abs2 is None or rel_tol is None:
        return False, float("inf")
    (aa, ba), (ca, da) = abs1, abs2
    bound = add(mul(aa, da), mul(ca, ba))
    worst = Fraction(0)
    for m, coef in diff_.items():
        bnd = bound.get(m, 0)
        if bnd == 0:
            return False, float("inf")
        worst = max(worst, abs(coef) / bnd)
    return worst <= rel_tol, float(worst)
