"""C01 - evaluation returns the real-arithmetic value of the expression."""
from __future__ import annotations

from .. import gen as G
from .. import monitors as M
from .. import refmodel as R
from .. import spec as S
from . import common as C
from . import extreme as X

MONITORS = ("math", "route")
LEVEL = "exploration"
PLAN = {"quick": {"cases": 14000, "shards": 16, "timeout": 900},
        "thorough": {"cases": 500000, "shards": 32, "timeout": 7200}}
RULE = ("cases = random/rule-shaped/boundary-free trees over all 15 constructors (tree and DAG builds) x 3 points each; "
        "an evaluation is counted when the reference model says the point is decisively inside the domain and in scope; "
        "non-trivial = tree of >= 3 nodes whose reference enclosure is narrower than 1e-6 relative; distinct by (spec, point)")
ASSUMPTIONS = [
    "mpmath 1.3.0 interval arithmetic at 200 bits is a rigorous enclosure of the exact real value",
    "a conforming float evaluation rounds every primitive operation to within 8 ulps (+-*/ sqrt) or 16 ulps (pow/exp/log/sin/cos; roots via pow additionally 16*u*|ln x|/n)",
    "exactness verdicts assume IEEE-754 +,-,*,/,sqrt and pow of exactly representable results",
    "only points whose every exact intermediate lies in [1e-60, 1e60] are judged",
]


def make_case(rng, tier):
    if rng.random() < 0.03:
        t, p = X.gen_flat(rng)
        if t is not None:
            return {"kind": "extreme_flat", "family": "extreme_flat", "spec": S.to_json(t), "points": [S.point_to_json(p)], "mode": "tree"}
    t, fam, vals = C.mixed_tree(rng, tier)
    names = sorted(S.variables(t))
    pts = [G.rand_point(rng, names, vals) for _ in range(3)]
    if rng.random() < 0.25:
        pts += G.collision_twins(rng, names, vals)
    return {"kind": "eval", "family": fam, "spec": S.to_json(t), "points": [S.point_to_json(p) for p in pts],
            "mode": "dag" if fam == "shared" else G.share(rng, t)}


def run_shard(ctx):
    C.run_corpus(ctx)
    n = C.budget(ctx, PLAN[ctx.tier]["cases"])
    for _ in range(n):
        ctx.run_case(make_case(ctx.rng, ctx.tier))


def check_extreme(ctx, case):
    """Flat n-ary sum / product of leaves at huge-but-finite coordinates: every node value is representable, so the
    result must be the exact value (to 1e-12) - whatever partial sums or products an implementation forms."""
    s = S.from_json(case["spec"])
    for pj in case["points"]:
        p = S.point_from_json(pj)
        exact = X.exact_value(s, p)
        if not X.in_range(exact):
            continue
        out = M.call(S.build(s).at, S.make_point(p))
        ctx.evaluation()
        ctx.count("extreme_flat_evaluations")
        ctx.nontrivial(case["spec"], pj)
        what = f"{S.show(s)} at {S.show_point(p)}"
        if out.kind != "num":
            ctx.violation("no_value_on_domain", f"{what}: every node value is representable (exact value {float(exact)!r}), library gave {out.brief()}")
        elif not X.close(out.value, exact):
            ctx.violation("outside_enclosure", f"{what}: got {out.value!r}, exact value {float(exact)!r}")


def check_case(ctx, case):
    if case.get("kind") == "extreme_flat":
        return check_extreme(ctx, case)
    import smoothmath as sm
    s = S.from_json(case["spec"])
    mode = case.get("mode", "tree")
    names = S.variables(s)
    ctx.count("cases")
    e, parts = C.build_with_parts(s, mode)   # one long-lived object per case: later points see the memo left by earlier ones
    firsts = []
    for pj in case["points"]:
        p = S.point_from_json(pj)
        res = R.NORMAL.evaluate(s, p)
        st = res.status
        ctx.hist("reference_status", st)
        if st == "oos":
            continue
        out = M.call(e.at, S.make_point(p))
        firsts.append((p, out, st))
        if st != "def":
            continue                # the raising side is C02's; the call still is part of this object's history
        root = res.root
        ctx.evaluation()
        ctx.hist("family", case.get("family", "?"))
        what = f"{S.show(s)} at {S.show_point(p)}"
        ok = C.judge_number(ctx, out, root, what)
        for k in S.kinds(s):
            ctx.hist("constructors", k)
        if S.size(s) >= 3 and C.decisive_width(root.iv):
            ctx.nontrivial(case["spec"], pj)
        ctx.sample({"spec": S.show(s), "point": S.show_point(p), "mode": mode, "library": repr(out.value),
                    "enclosure": [R.lo_float(root.iv), R.hi_float(root.iv)], "exact_required": bool(root.fx)})
        # a fresh object must give the same bits as the long-lived one
        fresh = M.call(S.build(s, mode).at, S.make_point(p))
        if fresh.bits() != out.bits():
            ctx.violation("used_object_differs_from_fresh_copy", f"{what}: object evaluated before at other points gave {out.brief()}, a fresh copy {fresh.brief()}")
        if len(names) <= 1:
            v = p[next(iter(names))] if names else 0.75
            for spelled in ((v,) if not (isinstance(v, float) and v.is_integer()) else (v, int(v))):
                out2 = M.call(e.at, spelled)
                ctx.count("bare_number_evaluations")
                if type(spelled) is type(v):
                    if out2.bits() != out.bits():
                        ctx.violation("number_vs_point", f"{what}: at(Point) gave {out.brief()} but at({spelled!r}) gave {out2.brief()}")
                else:
                    # an int-typed coordinate legitimately takes other arithmetic paths (int sums and
                    # powers are exact): same real value, judged against the same enclosure
                    C.judge_number(ctx, out2, root, what + f" [coordinate spelled {spelled!r}]", exact_required=False)
    # revisit the points in reverse order, refilling the memo through another path in between
    vs = sorted(names)
    for i, (p, out, st) in enumerate(reversed(firsts)):
        if vs and len(firsts) > 1:
            q = firsts[i % len(firsts)][0]
            if parts and i % 2 == 1:
                # a sub-expression the caller also holds, evaluated as a root of its own at another point
                M.call(parts[(i * 7) % len(parts)].at, S.make_point(q))
            else:
                M.call(lambda: sm.Partial(e, vs[0]).at(S.make_point(q)))
        again = M.call(e.at, S.make_point(p))
        ctx.count("revisits")
        if again.bits() != out.bits():
            ctx.violation("reevaluation_differs", f"{S.show(s)} at {S.show_point(p)}: first {out.brief()}, after other evaluations and derivative queries on the same object {again.brief()}")


def deciding(m):
    out = []
    if m["evaluations"] == 0:
        out.append("no decisive in-domain evaluation was performed")
    if m["hook_counts"].get("math.add", 0) + m["hook_counts"].get("math.multiply", 0) == 0:
        out.append("math-layer hooks never fired (library not reached through the instrumented modules)")
    return out
