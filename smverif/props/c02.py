"""C02 - DomainError exactly at the points outside the (strict) domain; finite real on it."""
from __future__ import annotations

from .. import gen as G
from .. import monitors as M
from .. import refmodel as R
from .. import spec as S
from . import common as C
from . import extreme as X
from . import c01

MONITORS = ("math", "route")
LEVEL = "exploration"
PLAN = {"quick": {"cases": 9000, "shards": 16, "timeout": 900},
        "thorough": {"cases": 250000, "shards": 32, "timeout": 7200}}
RULE = ("70% boundary-seeking cases (a guarded node - denominator, reciprocal, logarithm argument, power base, even/odd root - "
        "whose exactly computable argument is solved to sit on, next to (+-2^-20, +-1/2) and on either side of its boundary, wrapped in "
        "zero-factor / zero-numerator / base-one / constant-fold / nesting contexts), 30% random trees x 3 points; the reference "
        "decides definedness eagerly on every node (three-valued; indeterminate points are skipped and counted); "
        "non-trivial = a decisive point of a tree containing at least one guarded constructor; distinct by (spec, point)")
ASSUMPTIONS = [
    "a point is 'decisively undefined' when a guard argument is float-exactly on its boundary or its rounding-aware enclosure is entirely on the wrong side; 'decisively defined' when every guard's enclosure excludes its boundary",
    "points where an inexact enclosure straddles a boundary are indeterminate and excluded",
    "scope: every exact intermediate within [1e-60, 1e60]",
]

GUARDED = {"Divide", "Reciprocal", "Logarithm", "Power", "NthRoot"}


def make_case(rng, tier):
    if rng.random() < 0.02:
        t, p = X.gen_flat(rng)
        if t is not None:
            return {"kind": "extreme_flat", "family": "extreme_flat", "guard": "-", "spec": S.to_json(t), "points": [S.point_to_json(p)], "mode": "tree"}
    if rng.random() < 0.7:
        t, pts, info = G.boundary_case(rng)
        fam = "boundary:" + info["context"]
        guard = info["guard"]
    else:
        t, fam, vals = C.mixed_tree(rng, tier, kinds=("plain", "rule", "rational", "special"), weights=(40, 30, 15, 15))
        pts = [G.rand_point(rng, sorted(S.variables(t)), vals) for _ in range(3)]
        guard = "-"
    return {"kind": "domain", "family": fam, "guard": guard, "spec": S.to_json(t),
            "points": [S.point_to_json(p) for p in pts], "mode": G.share(rng, t)}


def run_shard(ctx):
    C.run_corpus(ctx)
    n = C.budget(ctx, PLAN[ctx.tier]["cases"])
    for _ in range(n):
        ctx.run_case(make_case(ctx.rng, ctx.tier))


def check_case(ctx, case):
    if case.get("kind") == "extreme_flat":
        # "as long as no exact intermediate leaves the range of double precision, returns a finite real number"
        return c01.check_extreme(ctx, case)
    s = S.from_json(case["spec"])
    mode = case.get("mode", "tree")
    ctx.count("cases")
    has_guard = bool(S.kinds(s) & GUARDED)
    import smoothmath as sm
    e, parts = C.build_with_parts(s, mode)   # one long-lived object per case (defined and undefined points alternate on it)
    firsts = []
    for pj in case["points"]:
        p = S.point_from_json(pj)
        res = R.NORMAL.evaluate(s, p)
        st = res.status
        ctx.hist("reference_status", st)
        if st in ("oos", "indet", "missing"):
            continue
        out = M.call(e.at, S.make_point(p))
        firsts.append((p, out, st))
        ctx.evaluation()
        ctx.hist("family", case.get("family", "?"))
        ctx.hist("guard", case.get("guard", "-"))
        ctx.hist("outcome", st + "->" + out.cls)
        what = f"{S.show(s)} at {S.show_point(p)}"
        if st == "undef":
            if out.kind != "DomainError":
                ctx.violation("value_outside_domain",
                              f"{what}: a sub-expression is outside its domain ({res.undef[0]}), expected DomainError, library gave {out.brief()}")
        else:
            if out.kind == "DomainError":
                ctx.violation("domainerror_inside_domain", f"{what}: every sub-expression is inside its domain, library raised DomainError: {out.msg}")
            elif out.kind != "num":
                ctx.violation("not_a_finite_real", f"{what}: inside the domain, library gave {out.brief()}")
            else:
                C.judge_number(ctx, out, res.root, what)
        if has_guard:
            ctx.nontrivial(case["spec"], pj)
        if st == "undef" or ctx.rng.random() < 0.05:
            ctx.sample({"spec": S.show(s), "point": S.show_point(p), "reference": st,
                        "why": (res.undef[0] if res.undef else None), "library": out.brief()})


    # (appended to check_case) revisit in reverse order with derivative queries in between
    vs = sorted(S.variables(s))
    for i, (p, out, st) in enumerate(reversed(firsts)):
        if vs and len(firsts) > 1:
            q = firsts[i % len(firsts)][0]
            if parts and i % 2 == 1:
                # a sub-expression the caller also holds, evaluated as a root of its own at another point
                M.call(parts[(i * 7) % len(parts)].at, S.make_point(q))
            else:
                M.call(lambda: sm.Partial(e, vs[0]).at(S.make_point(q)))
        again = M.call(e.at, S.make_point(p))
        ctx.count("revisits")
        if again.bits() != out.bits():
            ctx.violation("reevaluation_differs", f"{S.show(s)} at {S.show_point(p)} ({st}): first {out.brief()}, after other evaluations and derivative queries on the same object {again.brief()}")


def deciding(m):
    out = []
    o = m["hists"].get("outcome", {})
    if not any(k.startswith("undef->") for k in o):
        out.append("no decisively undefined point was exercised")
    if not any(k.startswith("def->") for k in o):
        out.append("no decisively defined point was exercised")
    return out
