"""C03 - forward-mode partials equal the true partial derivative."""
from __future__ import annotations
from fractions import Fraction

from .. import gen as G
from .. import monitors as M
from .. import refmodel as R
from .. import spec as S
from . import common as C

MONITORS = ("math", "route")
LEVEL = "exploration"
PLAN = {"quick": {"cases": 5000, "shards": 16, "timeout": 900},
        "thorough": {"cases": 160000, "shards": 32, "timeout": 7200}}
RULE = ("random / rule-shaped / deep-chain / repeated-variable / polynomial-exact trees x 2 points x every variable of the tree plus one "
        "absent variable, queried through late Partial (variable as object and as name) and late Derivative (Point and bare number); "
        "an evaluation = one (tree, variable, point, route) judged against the reference AD enclosure (or the exact rational "
        "derivative on the dyadic polynomial fragment); non-trivial = variable occurs, tree >= 3 nodes, enclosure decisive; "
        "distinct by (spec, variable, point)")
ASSUMPTIONS = [
    "reference AD = textbook chain rule over mpmath intervals, every arithmetic result inflated by 8/16 ulps, pow-family by 16*u*(1+|b ln a|), plus slack 16*u*(sum of absolute path contributions)",
    "the AD rules are self-checked on a sample of cases against central differences of the reference evaluator (h = 1e-40, 200 bits)",
    "only decisive in-domain, in-scope points are judged (C07 owns the raising side)",
]
ROUTES = ["partial_late", "partial_late_name", "derivative_late", "derivative_late_number"]


def poly_exact_ok(s, p):
    """True when every intermediate of any differentiation formula shape is exactly representable."""
    if not (S.kinds(s) <= {"Constant", "Variable", "Add", "Minus", "Negation", "Multiply", "NthPower"}):
        return False

    def walk(t):
        k = t[0]
        if k == "Constant" or k == "Variable":
            v = t[1] if k == "Constant" else p.get(t[1])
            if v is None:
                raise ValueError
            f = Fraction(v)
            q = f.denominator.bit_length() - 1
            if f.denominator & (f.denominator - 1):
                raise ValueError
            return max(abs(f), Fraction(1)), q
        kids = [walk(c) for c in S.children(t)]
        if k in ("Add", "Minus"):
            return sum((a for a, _ in kids), Fraction(0)) + 1, max([q for _, q in kids] + [0])
        if k == "Negation":
            return kids[0]
        if k == "Multiply":
            a = Fraction(1)
            for x, _ in kids:
                a *= x
            return a, sum(q for _, q in kids)
        n = S.int_n(t[2])
        return n * kids[0][0] ** n, n * kids[0][1]
    try:
        a, q = walk(s)
    except (ValueError, OverflowError):
        return False
    return a * S.size(s) * (1 << q) < (1 << 50)


def make_case(rng, tier):
    r = rng.random()
    hi = 30 if tier == "quick" else 60
    vals = G.POINT_VALUES
    if r < 0.35:
        t = G.friendly_tree(rng, G.rand_size(rng, 2, hi)); fam = "friendly"
    elif r < 0.5:
        t = G.rule_case(rng); fam = "rule"
    elif r < 0.62:
        t = G.repeated_variable_tree(rng, G.rand_size(rng, 4, hi)); fam = "repeated_var"
    elif r < 0.72:
        t, _ = G.chain(rng, rng.randint(2, 8)); fam = "chain"
    elif r < 0.82:
        t = C.special_tree(rng); fam = "special"
    elif r < 0.94:
        t = G.poly_exact_tree(rng, rng.randint(2, 12)); fam = "polyexact"; vals = G.POLY_EXACT_VALUES
    else:
        ks = [G.friendly_tree(rng, rng.randint(1, 4)) for _ in range(rng.randint(3, 5))]
        t = ("Multiply",) + tuple(ks); fam = "product3+"
    names = sorted(S.variables(t))
    pts = [G.rand_point(rng, names, vals, extra=0.05) for _ in range(2)]
    if rng.random() < 0.25:
        pts += G.collision_twins(rng, names, vals)
    absent = rng.choice(["q", "t", "x1"])
    return {"kind": "fwd", "family": fam, "spec": S.to_json(t), "points": [S.point_to_json(p) for p in pts],
            "mode": G.share(rng, t), "absent": absent}


def run_shard(ctx):
    C.run_corpus(ctx)
    n = C.budget(ctx, PLAN[ctx.tier]["cases"])
    for _ in range(n):
        ctx.run_case(make_case(ctx.rng, ctx.tier))


def check_case(ctx, case, routes=ROUTES, reverse=False):
    s = S.from_json(case["spec"])
    mode = case.get("mode", "tree")
    names = sorted(S.variables(s))
    ctx.count("cases")
    e, parts = C.build_with_parts(s, mode)   # one long-lived expression object; route objects are built once on it
    robjs = {}
    history = []                    # (route object key, point, first outcome)
    pts = [S.point_from_json(pj) for pj in case["points"]]
    for p, pj in zip(pts, case["points"]):
        res = R.NORMAL.evaluate(s, p)
        ctx.hist("reference_status", res.status)
        if res.status != "def":
            continue
        exact_ok = poly_exact_ok(s, p)
        for var in names + [case.get("absent", "q")]:
            _, d, da, dx = R.NORMAL.derivative(s, p, var, res=res)
            if R.too_big(d, R._DBIG_RAW) or R.too_big(da, R._DBIG_RAW):
                ctx.count("derivative_out_of_scope")
                continue
            occurs = var in names
            if occurs and not C.d_decisive(d, da):
                ctx.count("derivative_enclosure_too_wide")
                continue
            if occurs and ctx.rng.random() < (0.25 if ctx.tier == "quick" else 0.05) and not ctx.quiet:
                _, d0, _, _ = R.EXACT.derivative(s, p, var)
                if d0 is not None:
                    C.ad_selfcheck(ctx, s, p, var, d0)
            pp = dict(p)
            for route in routes:
                if route.startswith("derivative") and not (len(names) <= 1 and (var in names or not names)):
                    continue
                if route.endswith("_number"):
                    if var not in p:
                        continue
                key = (route, var)
                if key not in robjs:
                    robjs[key] = M.Route(route, e, var)
                out = robjs[key].query(pp)
                history.append((key, pp, out))
                ctx.evaluation()
                ctx.hist("routes", route)
                what = f"{route}: d/d{var} of {S.show(s)} at {S.show_point(p)}"
                if not occurs:
                    ctx.count("absent_variable_queries")
                    if out.kind != "num" or out.value != 0:
                        ctx.violation("absent_variable_not_zero", f"{what}: variable does not occur, expected 0, got {out.brief()}")
                    continue
                C.judge_derivative(ctx, out, d, da, dx, what, reverse=reverse, exact=exact_ok)
            if occurs:
                ctx.hist("family", case.get("family", "?"))
                if S.size(s) >= 3:
                    ctx.nontrivial(case["spec"], pj, var)
                if ctx.rng.random() < 0.02:
                    ctx.sample({"spec": S.show(s), "point": S.show_point(p), "variable": var,
                                "true_partial_enclosure": [R.lo_float(d), R.hi_float(d)], "exact_required": bool(exact_ok and dx is not None)})
    # the same long-lived objects asked again, with an evaluation of the shared expression at another point in between
    for i, (key, pp, out) in enumerate(reversed(history[-24:])):
        if len(pts) > 1:
            tgt = parts[(i * 5) % len(parts)] if (parts and i % 2 == 1) else e
            M.call(tgt.at, S.make_point(pts[i % len(pts)]))
        again = robjs[key].query(pp)
        ctx.count("revisits")
        if again.numbits() != out.numbits():
            ctx.violation("requery_differs", f"{key[0]}: d/d{key[1]} of {S.show(s)} at {S.show_point(pp)}: first {out.brief()}, after other queries on the same objects {again.brief()}")


def deciding(m):
    out = []
    if m["counts"].get("judged_enclosure", 0) + m["counts"].get("judged_exact", 0) == 0:
        out.append("no derivative was judged")
    if m["counts"].get("oracle_selfcheck_failed", 0):
        out.append(f"oracle self-check failed on {m['counts']['oracle_selfcheck_failed']} cases (reference AD vs finite differences): "
                   + "; ".join(list(m["hists"].get("oracle_selfcheck_failures", {}))[:2]))
    if m["counts"].get("oracle_selfcheck", 0) == 0:
        out.append("oracle self-check never ran")
    return out
