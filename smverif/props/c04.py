"""C04 - reverse-mode gradient equals the true partials for every variable at once."""
from __future__ import annotations

from .. import gen as G
from .. import hooks
from .. import monitors as M
from .. import refmodel as R
from .. import spec as S
from . import common as C
from . import c03
from . import extreme as X

MONITORS = ("math", "route", "acc")
LEVEL = "exploration"
PLAN = {"quick": {"cases": 5000, "shards": 16, "timeout": 900},
        "thorough": {"cases": 160000, "shards": 32, "timeout": 7200}}
RULE = ("DAG-heavy workloads (explicitly shared sub-expression objects, a variable occurring 2-12 times, >= 3-factor products with "
        "factors that evaluate to zero, nested quotients/powers) x 2 points; one gradient = LocatedDifferential(e, p) and "
        "Differential(e).at(p), every variable of e plus an absent one queried from the same object; the accumulator's add_to "
        "is logged and checked for conservation (reported partial == float sum of logged contributions, contributions <= "
        "root-to-leaf paths); non-trivial = variable reached along >= 2 paths or tree >= 5 nodes, decisive enclosure; distinct by (spec, var, point)")
ASSUMPTIONS = c03.ASSUMPTIONS + ["conservation check reads the library's own accumulator through a wrapper on NumericPartialsAccumulator.add_to"]


def paths_to(s, var):
    """Number of root-to-leaf paths ending in Variable(var) (tree-expanded count)."""
    if s[0] == "Variable":
        return 1 if s[1] == var else 0
    return sum(paths_to(c, var) for c in S.children(s))


def make_extreme(rng):
    t, p, good = X.gen_product_for_gradient(rng)
    if t is None:
        return None
    return {"kind": "extreme_product", "family": "extreme_product", "spec": S.to_json(t), "points": [S.point_to_json(p)], "vars": good, "mode": "tree"}


def check_extreme(ctx, case, route_names=("located", "diff_late_at_component")):
    """Gradient of a flat product at huge-but-finite coordinates: the node value is inside the double range and the
    exact partial is in the normal range, so it must come back to 1e-12 - whatever partial products an implementation
    forms on the way (failures that exact n-ary arithmetic would cure are the recorded finding KF-C)."""
    s = S.from_json(case["spec"])
    for pj in case["points"]:
        p = S.point_from_json(pj)
        for var in case["vars"]:
            exact = X.exact_partial(s, p, var)
            for rn in route_names:
                out = M.Route(rn, S.build(s), var).query(dict(p))
                ctx.evaluation()
                ctx.count("extreme_product_components")
                ctx.nontrivial(case["spec"], pj, var)
                what = f"{rn}: d/d{var} of {S.show(s)} at {S.show_point(p)}"
                if out.kind != "num":
                    ctx.violation("no_gradient_on_domain", f"{what}: exact partial {float(exact)!r} is representable, library gave {out.brief()}")
                elif not X.close(out.value, exact):
                    ctx.violation("derivative_outside_enclosure", f"{what}: got {out.value!r}, exact partial {float(exact)!r}")


def make_case(rng, tier):
    if rng.random() < 0.04:
        c = make_extreme(rng)
        if c is not None:
            return c
    r = rng.random()
    hi = 30 if tier == "quick" else 60
    vals = G.POINT_VALUES
    if r < 0.3:
        t = G.with_sharing(rng, G.friendly_tree(rng, G.rand_size(rng, 4, hi))); fam = "shared"
    elif r < 0.5:
        t = G.repeated_variable_tree(rng, G.rand_size(rng, 4, hi)); fam = "repeated_var"
    elif r < 0.65:
        ks = [G.friendly_tree(rng, rng.randint(1, 4)) for _ in range(rng.randint(2, 4))]
        z = rng.choice(G.ZEROS + [("Minus", ("Variable", "x"), ("Variable", "x")), ("Sine", ("Constant", 0))])
        ks.insert(rng.randint(0, len(ks)), z)
        if rng.random() < 0.3:
            ks.insert(rng.randint(0, len(ks)), rng.choice(G.ZEROS))
        t = ("Multiply",) + tuple(ks); fam = "zero_factor_product"
        if rng.random() < 0.5:
            t = G.embed(rng, t)
    elif r < 0.75:
        t = G.rule_case(rng); fam = "rule"
    elif r < 0.85:
        a, b, c = (G.friendly_tree(rng, rng.randint(1, 5)) for _ in range(3))
        t = rng.choice([("Divide", a, ("Divide", b, c)), ("Power", G.positive_of(rng, a), ("Divide", b, G.positive_of(rng, c))),
                        ("Divide", ("Power", G.positive_of(rng, a), b), c), ("Minus", a, ("Minus", b, c))])
        t = G.with_sharing(rng, t, 1); fam = "nested_quotient_power"
    elif r < 0.93:
        t = G.poly_exact_tree(rng, rng.randint(2, 12)); fam = "polyexact"; vals = G.POLY_EXACT_VALUES
    else:
        t, _ = G.chain(rng, rng.randint(2, 8)); fam = "chain"
    names = sorted(S.variables(t))
    pts = [G.rand_point(rng, names, vals, extra=0.05) for _ in range(2)]
    if rng.random() < 0.3:
        pts += G.collision_twins(rng, names, vals)
    return {"kind": "rev", "family": fam, "spec": S.to_json(t), "points": [S.point_to_json(p) for p in pts],
            "mode": "dag" if rng.random() < 0.8 else "tree", "absent": rng.choice(["q", "t", "x1"])}


def run_shard(ctx):
    C.run_corpus(ctx)
    n = C.budget(ctx, PLAN[ctx.tier]["cases"])
    for _ in range(n):
        ctx.run_case(make_case(ctx.rng, ctx.tier))


def _gradient_objects(e, p):
    import smoothmath as sm
    return [("located", lambda: sm.LocatedDifferential(e(), sm.Point(**p))),
            ("diff_late_at", lambda: sm.Differential(e()).at(sm.Point(**p)))]


def check_case(ctx, case):
    if case.get("kind") == "extreme_product":
        return check_extreme(ctx, case)
    import smoothmath.expression as E
    s = S.from_json(case["spec"])
    mode = case.get("mode", "dag")
    names = sorted(S.variables(s))
    ctx.count("cases")
    shared, parts = C.build_with_parts(s, mode)   # one long-lived expression object for all gradients of the case
    firsts = []
    for pj in case["points"]:
        p = S.point_from_json(pj)
        res = R.NORMAL.evaluate(s, p)
        ctx.hist("reference_status", res.status)
        if res.status != "def":
            continue
        exact_ok = c03.poly_exact_ok(s, p)
        refs = {}
        for var in names:
            _, d, da, dx = R.NORMAL.derivative(s, p, var, res=res)
            if R.too_big(d, R._DBIG_RAW) or R.too_big(da, R._DBIG_RAW):
                refs = None
                break
            refs[var] = (d, da, dx)
        if refs is None:
            ctx.count("derivative_out_of_scope")
            continue
        for gname, mk in _gradient_objects(lambda: shared, p):
            hooks.ST.acc_on = True
            hooks.ST.acc_log = []
            g = M.call(mk, numeric=False)
            log = hooks.ST.acc_log
            hooks.ST.acc_on = False
            ctx.evaluation()
            ctx.hist("routes", gname)
            what0 = f"{gname} of {S.show(s)} at {S.show_point(p)}"
            if g.kind != "obj":
                ctx.violation("no_gradient_on_domain", f"{what0}: expression is defined here, library gave {g.brief()}")
                continue
            ld = g.value
            accs = {a for a, _, _ in log}
            if len(accs) > 1:
                ctx.count("several_accumulators_seen")
            for var in names + [case.get("absent", "q")]:
                spell = var if ctx.rng.random() < 0.5 else E.Variable(var)
                out = M.call(ld.component, spell)
                what = f"{what0}, component {var}"
                if var not in names:
                    ctx.count("absent_variable_queries")
                    if out.kind != "num" or out.value != 0:
                        ctx.violation("absent_variable_not_zero", f"{what}: variable does not occur, expected 0, got {out.brief()}")
                    continue
                d, da, dx = refs[var]
                if not C.d_decisive(d, da):
                    ctx.count("derivative_enclosure_too_wide")
                    continue
                ok = C.judge_derivative(ctx, out, d, da, dx, what, reverse=True, exact=exact_ok)
                firsts.append((gname, p, var, out))
                npaths = paths_to(s, var)
                ctx.hist("paths_to_variable", min(npaths, 12))
                # conservation over the logged contributions
                if log and len(accs) == 1 and out.kind == "num":
                    contrib = [c for _, nm, c in log if nm == var]
                    ctx.count("contributions_logged", len(contrib))
                    tot = 0
                    for c_ in contrib:
                        tot = tot + c_
                    if contrib and tot != out.value:
                        # conservation up to rounding: how the accumulator sums is its own business
                        scale_ = sum(abs(float(c_)) for c_ in contrib)
                        if abs(float(tot) - float(out.value)) > 64 * 2.0 ** -53 * scale_:
                            ctx.violation("conservation_broken", f"{what}: reported {out.value!r} but the logged contributions {contrib[:8]!r} sum to {tot!r}")
                        ctx.count("reported_component_not_bitwise_sum_of_contributions")
                    if len(contrib) > npaths:
                        ctx.count("more_contributions_than_paths")
                    if len(contrib) < npaths:
                        ctx.count("paths_pruned")
                if npaths >= 2 or S.size(s) >= 5:
                    ctx.nontrivial(case["spec"], pj, var)
                ctx.hist("family", case.get("family", "?"))
                if ctx.rng.random() < 0.01:
                    ctx.sample({"spec": S.show(s), "point": S.show_point(p), "variable": var, "paths": npaths, "mode": mode,
                                "library": out.brief(), "true_partial_enclosure": [R.lo_float(d), R.hi_float(d)]})


    # (end of check_case) the same gradients again on the long-lived object, in reverse order, with evaluations in between
    import smoothmath as sm
    for i, (gname, p, var, out) in enumerate(reversed(firsts[-12:])):
        q_ = firsts[(i + 1) % len(firsts)][1]
        M.call(shared.at, sm.Point(**p))                     # the root itself at p ...
        if parts:
            M.call(parts[(i * 3) % len(parts)].at, sm.Point(**q_))   # ... then a sub-expression the caller holds, as its own root, elsewhere
        else:
            M.call(shared.at, sm.Point(**q_))
        mk = dict(_gradient_objects(lambda: shared, p))[gname]
        g = M.call(mk, numeric=False)
        ctx.count("revisits")
        if g.kind != "obj":
            ctx.violation("requery_differs", f"{gname} of {S.show(s)} at {S.show_point(p)}: first time a gradient, now {g.brief()}")
            continue
        again = M.call(g.value.component, var)
        if again.numbits() != out.numbits():
            ctx.violation("requery_differs", f"{gname} of {S.show(s)} at {S.show_point(p)}, component {var}: first {out.brief()}, after other queries on the same expression object {again.brief()}")


def deciding(m):
    out = []
    if m["counts"].get("judged_enclosure", 0) + m["counts"].get("judged_exact", 0) == 0:
        out.append("no gradient component was judged")
    if m["hook_counts"].get("acc.add_to", 0) == 0:
        out.append("accumulator hook never fired")
    return out
