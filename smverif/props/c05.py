"""C05 - symbolic derivatives denote the true derivative on the original's domain."""
from __future__ import annotations
from fractions import Fraction

from .. import gen as G
from .. import hooks
from .. import monitors as M
from .. import poly as P
from .. import refmodel as R
from .. import reflect as RF
from .. import spec as S
from . import common as C

MONITORS = ("math", "route", "rw", "vars")
LEVEL = "exploration"
PLAN = {"quick": {"cases": 2600, "shards": 16, "timeout": 900},
        "thorough": {"cases": 60000, "shards": 32, "timeout": 7200}}
RULE = ("random / rule-shaped / rational / boundary / special trees; for every variable of the tree and both symbolic routes "
        "(forward: Partial/Derivative.as_expression(); reverse: Differential(e, compute_early=True).component(v).as_expression()) "
        "the returned expression R is reflected and judged at 4-8 points of the original's domain: R defined (reference and library), "
        "library value of R inside R's own enclosure, exact value of R (constants widened 4u) meets the reference-AD enclosure of the "
        "true partial, variables(R) subset variables(e), R well-formed (M-VARS on every node, R == rebuild(reflect(R))), second-order "
        "partials of R against reference AD of R and against finite differences of the reference first derivative; on the rational "
        "fragment R is compared with the true derivative as a rational function (polynomial identity); "
        "evaluation = one (tree, variable, route); non-trivial = variable occurs and tree >= 3 nodes; distinct by (spec, variable, route)")
ASSUMPTIONS = [
    "reference AD and interval model as in C03; exact value of a returned expression = 200-bit interval evaluation with every non-integer Constant widened by +-4u",
    "only decisive, in-scope points of the original's domain are judged",
    "polynomial identity: exact Fractions, coefficients compared exactly, or to 1e-11 relative when folded constants were rounded",
]
SYM_ROUTES = ["forward_partial", "forward_derivative", "reverse_differential"]


def sym_expr(route, e, var):
    import smoothmath as sm
    if route == "forward_partial":
        return sm.Partial(e, var).as_expression()
    if route == "forward_partial_early":
        return sm.Partial(e, var, compute_early=True).as_expression()
    if route == "forward_derivative":
        return sm.Derivative(e).as_expression()
    if route == "reverse_differential":
        return sm.Differential(e, compute_early=True).component(var).as_expression()
    raise ValueError(route)


def make_case(rng, tier):
    r = rng.random()
    hi = 22 if tier == "quick" else 40
    vals = G.POINT_VALUES
    npts = 4
    if r < 0.3:
        t = G.friendly_tree(rng, G.rand_size(rng, 2, hi)); fam = "friendly"
    elif r < 0.55:
        t = G.rule_case(rng); fam = "rule"
    elif r < 0.7:
        t = G.rand_tree(rng, G.rand_size(rng, 2, 14), G.RATIONAL); fam = "rational"; vals = G.DYADIC_VALUES; npts = 8
    elif r < 0.8:
        t, pts_, info = G.boundary_case(rng); fam = "boundary"
    elif r < 0.9:
        t = C.special_tree(rng); fam = "special"
    else:
        t = G.rand_tree(rng, G.rand_size(rng, 1, hi)); fam = "plain"
    names = sorted(S.variables(t))
    if fam == "boundary":
        pts = pts_[:6]
    else:
        pts = [G.rand_point(rng, names, vals, extra=0.0) for _ in range(npts)]
    return {"kind": "sym", "family": fam, "spec": S.to_json(t), "points": [S.point_to_json(p) for p in pts],
            "mode": G.share(rng, t), "absent": rng.choice(["q", "t"])}


def run_shard(ctx):
    C.run_corpus(ctx)
    n = C.budget(ctx, PLAN[ctx.tier]["cases"])
    for _ in range(n):
        ctx.run_case(make_case(ctx.rng, ctx.tier))


def second_partial_numdiff(s, p, v, w, h_exp=30, prec=600):
    """d/dw of the reference first derivative (d s / d v), by central differences in 600-bit arithmetic."""
    saved = R.iv.prec
    R.iv.prec = prec
    try:
        h = Fraction(1, 10 ** h_exp)
        vals = []
        for sign in (1, -1):
            q = dict(p)
            q[w] = Fraction(p[w]) + sign * h
            res, d, da, dx = R._NUMDIFF_MODEL.derivative(s, q, v)
            if d is None:
                return None
            vals.append(d)
        return (vals[0] - vals[1]) / R.ivnum(2 * h)
    except Exception:
        return None
    finally:
        R.iv.prec = saved


def check_case(ctx, case):
    s = S.from_json(case["spec"])
    mode = case.get("mode", "tree")
    names = sorted(S.variables(s))
    pts = [S.point_from_json(pj) for pj in case["points"]]
    if not C.tree_in_scope(s, pts):
        ctx.count("inputs_out_of_scope")
        return
    ctx.count("cases")
    # decisive domain points of the original
    dom = []
    for p in pts:
        res = R.NORMAL.evaluate(s, p)
        ctx.hist("reference_status", res.status)
        if res.status == "def":
            dom.append((p, res))
    rational = P.is_rational_spec(s)
    ref_rat = None
    if rational:
        try:
            ref_rat = P.to_rational(s)
        except (P.TooBig, P.NotRational, ZeroDivisionError):
            ref_rat = None
    for var in names + [case.get("absent", "q")]:
        occurs = var in names
        for route in SYM_ROUTES:
            if route == "forward_derivative" and not (len(names) == 1 and occurs):
                continue
            hooks.vars_reset()
            hooks.ST.vars_on = True
            nv0 = len(hooks.ST.vars_viol)
            e = S.build(s, mode)
            got = M.call(sym_expr, route, e, var, numeric=False)
            hooks.ST.vars_on = False
            ctx.evaluation()
            ctx.hist("routes", route)
            what = f"{route} d/d{var} of {S.show(s)}"
            if len(hooks.ST.vars_viol) > nv0:
                bad = hooks.ST.vars_viol[nv0]
                ctx.violation("stale_variable_set", f"{what}: a node built during differentiation/simplification claims variables {bad['claimed']} but mentions {bad['actual']}: {bad['node']}")
                del hooks.ST.vars_viol[nv0:]
            if got.kind != "obj":
                if C.overflow_excusable(s, got):
                    ctx.count("overflow_with_undefined_constant_part_unfiltered")
                    continue
                ctx.violation("as_expression_failed", f"{what}: as_expression() gave {got.brief()}")
                continue
            Robj = got.value
            try:
                rs = RF.reflect(Robj)
            except RF.ReflectError as ex:
                ctx.violation("malformed_result", f"{what}: result is not a well-formed expression: {ex}")
                continue
            ctx.hist("result_size", min(S.size(rs), 60) // 5 * 5)
            if not (S.variables(rs) <= set(names)):
                ctx.violation("foreign_variable", f"{what}: result {S.show(rs)[:300]} mentions {sorted(S.variables(rs) - set(names))}")
            with hooks.busy():
                rebuilt = S.build(rs, "tree")
                eq = M.call(lambda: (Robj == rebuilt, rebuilt == Robj, hash(Robj) == hash(rebuilt)), numeric=False)
            if eq.kind != "obj" or eq.value != (True, True, True):
                ctx.violation("result_not_equal_to_rebuild", f"{what}: result {S.show(rs)[:300]} does not compare equal to a rebuild of itself: {eq.brief()} {eq.value!r}")
            if not occurs:
                ctx.count("absent_variable_queries")
                zero = M.call(rebuilt.at, S.make_point(pts[0] if pts else {}))
                if not (rs[0] == "Constant" and rs[1] == 0):
                    # any expression denoting zero on the original's domain is acceptable
                    for (p, res) in dom[:4]:
                        rz = R.EXACT.evaluate(rs, p)
                        if rz.status == "def" and not R.is_zero(rz.root.iv) and not R.contains(rz.root.iv, 0):
                            ctx.violation("absent_variable_not_zero", f"{what}: variable does not occur, but the returned {S.show(rs)[:200]} is not zero at {S.show_point(p)}")
                            break
                        if rz.status == "undef":
                            ctx.violation("derivative_expression_undefined_on_domain", f"{what}: returned {S.show(rs)[:200]} is undefined at {S.show_point(p)} ({rz.undef[0]})")
                            break
                continue
            # rational fragment: all points at once
            if ref_rat is not None and P.is_rational_spec(rs):
                try:
                    want = P.rational_diff(ref_rat[0], ref_rat[1], var)
                    have = P.to_rational(rs)
                    ra = P.to_rational_abs(s)
                    same, worst = P.same_function(have, want, P.to_rational_abs(rs), P.rational_diff_abs(ra[0], ra[1], var), rel_tol=Fraction(1, 10 ** 11))
                    ctx.count("polynomial_identities_checked")
                    if worst > 0:
                        ctx.count("polynomial_identities_up_to_rounding")
                    if not same:
                        ctx.violation("not_the_derivative_as_rational_function",
                                      f"{what}: result {S.show(rs)[:300]} differs from the true derivative as a rational function (relative coefficient defect {worst:.3g})")
                except (P.TooBig, P.NotRational):
                    ctx.count("polynomial_identity_too_big")
                except ZeroDivisionError:
                    ctx.violation("result_denominator_identically_zero", f"{what}: result {S.show(rs)[:300]} divides by an identically zero polynomial")
            judged = 0
            for (p, res) in dom:
                _, d, da, dx = R.NORMAL.derivative(s, p, var, res=res)
                if R.too_big(d, R._DBIG_RAW) or R.too_big(da, R._DBIG_RAW) or not C.d_decisive(d, da):
                    ctx.count("points_skipped_wide_or_oos")
                    continue
                wp = f"{what} -> {S.show(rs)[:400]} at {S.show_point(p)}"
                # (ii) exact value of R vs the true partial
                rx0 = R.EXACT_WIDE_ALL.evaluate(rs, p)
                if rx0.status == "undef":
                    ctx.violation("derivative_expression_undefined_on_domain",
                                  f"{wp}: the original is defined here but the returned expression is not ({rx0.undef[0]})")
                    continue
                rx = R.NORMAL_WIDE.evaluate(rs, p)
                if rx.status in ("oos", "missing"):
                    ctx.count("points_skipped_result_" + rx.status)
                    if rx.status == "missing":
                        ctx.violation("foreign_variable", f"{wp}: result needs coordinates {sorted(rx.missing)} the original does not")
                    continue
                if rx.status != "def":
                    ctx.count("points_skipped_result_indeterminate")
                    continue
                enc = R.slack_interval(d, da, 16)
                judged += 1
                ctx.count("points_judged")
                if not R.intersects(rx.root.iv, enc):
                    ctx.violation("wrong_derivative_value",
                                  f"{wp}: the value of the returned expression (folded constants within 4u) is [{R.lo_float(rx.root.iv)!r}, {R.hi_float(rx.root.iv)!r}] "
                                  f"but the true partial lies in [{R.lo_float(enc)!r}, {R.hi_float(enc)!r}]")
                    continue
                # (i) the library's own evaluation of R
                rn = R.NORMAL.evaluate(rs, p)
                out = M.call(Robj.at, S.make_point(p))
                if rn.status == "def":
                    C.judge_number(ctx, out, rn.root, "value of returned expression: " + wp, exact_required=False)
                elif out.kind not in ("num", "DomainError"):
                    ctx.violation("bad_outcome_evaluating_result", f"{wp}: {out.brief()}")
                # second order
                if judged <= 2 and S.size(rs) <= 60:
                    for w in names:
                        _second_order(ctx, s, rs, Robj, p, var, w, wp)
            if S.size(s) >= 3:
                ctx.nontrivial(case["spec"], var, route)
            ctx.hist("family", case.get("family", "?"))
            if ctx.rng.random() < 0.02:
                ctx.sample({"original": S.show(s), "variable": var, "route": route, "returned": S.show(rs)[:300], "points_judged": judged})


def _second_order(ctx, s, rs, Robj, p, v, w, wp):
    import smoothmath as sm
    r2 = R.NORMAL.evaluate(rs, p)
    if r2.status != "def":
        return
    _, d2, d2a, _ = R.NORMAL.derivative(rs, p, w, res=r2)
    if R.too_big(d2, R._DBIG_RAW) or R.too_big(d2a, R._DBIG_RAW) or not C.d_decisive(d2, d2a):
        return
    out = M.call(lambda: sm.Partial(Robj, w).at(S.make_point(p)))
    ctx.count("second_order_queries")
    ok = C.judge_derivative(ctx, out, d2, d2a, None, f"second-order d/d{w}: " + wp)
    if ok and not ctx.quiet and ctx.rng.random() < 0.3:
        nd = second_partial_numdiff(s, p, v, w)
        if nd is not None:
            ctx.count("second_order_vs_finite_difference")
            diff = abs(nd.mid - R.ivnum(out.value))
            tol = (abs(nd.mid) + abs(d2a) + 1) * R.iv.mpf(10) ** -7
            if not (diff.b <= tol.b):
                ctx.violation("second_order_partial_wrong",
                              f"d/d{w} of ({wp}): library {out.value!r}, finite difference of the true first derivative {R.mid_float(nd)!r}")


def deciding(m):
    out = []
    if m["counts"].get("points_judged", 0) == 0:
        out.append("no returned expression was judged at a domain point")
    if m["vars_checked"] == 0:
        out.append("M-VARS never observed a construction")
    return out
