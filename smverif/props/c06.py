"""C06 - early, late and every other differentiation route give the same answers."""
from __future__ import annotations

from .. import gen as G
from .. import hooks
from .. import monitors as M
from .. import refmodel as R
from .. import reflect as RF
from .. import spec as S
from . import common as C
from . import c04

MONITORS = ("math", "route", "rw")
LEVEL = "exploration"
PLAN = {"quick": {"cases": 1600, "shards": 16, "timeout": 900},
        "thorough": {"cases": 40000, "shards": 32, "timeout": 7200}}
RULE = ("random / rule-shaped / boundary-seeking trees (<= 18 nodes quick, <= 30 thorough) x one variable (occurring or absent) x "
        "3-6 points inside, outside and on the boundary of the domain; every case builds all 13-17 route objects (Partial early/late/"
        "after as_expression(), variable as object and name; Differential early/late x component_at / component().at / at().component; "
        "LocatedDifferential; Derivative early/late x Point/number for one-variable trees) and queries each at each point; "
        "verdicts: one outcome class across routes at decisive points, numeric-path values inside the reference-AD enclosure, "
        "symbolic-path values inside the enclosure of their own expression which must meet the AD enclosure; early/late "
        "as_expression() structurally equal for Partial and Derivative; Differential.component == Partial; Differential.at == LocatedDifferential; "
        "evaluation = one route query; non-trivial = variable occurs and tree >= 3 nodes; distinct by (spec, variable, point)")
ASSUMPTIONS = [
    "reference model as in C03/C05",
    "early Differential components come from the reverse symbolic route, whose shape may legitimately differ from the forward route: required to be semantically, not structurally, equal (DESIGN.md C06)",
    "indeterminate points (a guard's enclosure straddles its boundary) and out-of-scope points are skipped",
]


def make_case(rng, tier):
    if rng.random() < 0.05:
        c = c04.make_extreme(rng)
        if c is not None:
            return c
    r = rng.random()
    hi = 18 if tier == "quick" else 30
    if r < 0.3:
        t = G.friendly_tree(rng, G.rand_size(rng, 2, hi)); fam = "friendly"
        pts = None
    elif r < 0.5:
        t = G.rule_case(rng); fam = "rule"; pts = None
    elif r < 0.85:
        t, pts, info = G.boundary_case(rng); fam = "boundary:" + info["context"]
        pts = rng.sample(pts, 5)
    elif r < 0.93:
        t = C.special_tree(rng); fam = "special"; pts = None
    else:
        t = G.rand_tree(rng, G.rand_size(rng, 1, hi)); fam = "plain"; pts = None
    names = sorted(S.variables(t))
    if pts is None:
        pts = [G.rand_point(rng, names, extra=0.1) for _ in range(3)]
        if rng.random() < 0.3:
            pts += G.collision_twins(rng, names)
    var = rng.choice(names) if names and rng.random() < 0.85 else rng.choice(["q", "x", "y"])
    return {"kind": "routes", "family": fam, "spec": S.to_json(t), "points": [S.point_to_json(p) for p in pts],
            "mode": G.share(rng, t), "var": var}


def run_shard(ctx):
    C.run_corpus(ctx)
    n = C.budget(ctx, PLAN[ctx.tier]["cases"])
    for _ in range(n):
        ctx.run_case(make_case(ctx.rng, ctx.tier))


def symbolic_specs(s, var, mode):
    """(forward R spec, reverse R spec) obtained outside the observed objects."""
    import smoothmath as sm
    out = []
    with hooks.busy():
        for mk in (lambda e: sm.Partial(e, var, compute_early=True).as_expression(),
                   lambda e: sm.Differential(e, compute_early=True).component(var).as_expression()):
            try:
                out.append(RF.reflect(mk(S.build(s, mode))))
            except Exception:
                out.append(None)
    return out


def check_case(ctx, case):
    if case.get("kind") == "extreme_product":
        # every late (numeric) route must agree with the exact partial where the plain product rule is range-safe
        return c04.check_extreme(ctx, case, route_names=("partial_late", "partial_late_name", "diff_late_component_at", "diff_late_component_then_at",
                                                          "located", "located_name", "diff_late_at_component"))
    import smoothmath as sm
    import smoothmath.expression as E
    s = S.from_json(case["spec"])
    mode = case.get("mode", "tree")
    var = case["var"]
    names = sorted(S.variables(s))
    occurs = var in names
    if not C.tree_in_scope(s, [S.point_from_json(pj) for pj in case["points"]]):
        ctx.count("inputs_out_of_scope")
        return
    ctx.count("cases")
    pts = [S.point_from_json(pj) for pj in case["points"]]
    route_names = M.routes_for(names, var, pts[0] if pts else {})
    routes = {}
    for rn in route_names:
        routes[rn] = M.Route(rn, S.build(s, mode), var)
    rfwd, rrev = symbolic_specs(s, var, mode)
    what0 = f"d/d{var} of {S.show(s)}"

    for p, pj in zip(pts, case["points"]):
        res = R.NORMAL.evaluate(s, p)
        st = res.status
        ctx.hist("reference_status", st)
        if st in ("oos", "indet", "missing"):
            continue
        outs = {}
        for rn, ro in routes.items():
            if rn.endswith("_number") and var not in p:
                continue
            outs[rn] = ro.query(dict(p))
            ctx.evaluation()
            ctx.hist("routes", rn)
        classes = {o.cls if o.kind != "badnum" else "badnum" for o in outs.values()}
        what = f"{what0} at {S.show_point(p)}"
        ctx.hist("outcome_classes", "+".join(sorted(classes)))
        if len(classes) > 1:
            by = {}
            for rn, o in outs.items():
                by.setdefault(o.cls, []).append(rn)
            ctx.violation("routes_disagree_on_outcome_class",
                          f"{what}: " + "; ".join(f"{k}: {v[:4]}{'...' if len(v) > 4 else ''} ({outs[v[0]].brief()})" for k, v in sorted(by.items())))
            continue
        cls = next(iter(classes))
        if cls not in ("num", "DomainError"):
            ctx.violation("routes_agree_on_a_foreign_outcome", f"{what}: all routes gave {cls}: {next(iter(outs.values())).brief()}")
            continue
        if occurs and S.size(s) >= 3:
            ctx.nontrivial(case["spec"], var, pj)
        if cls == "DomainError" or st != "def":
            # whether raising is *right* here is C07's question
            continue
        # numbers must agree up to rounding
        _, d, da, dx = R.NORMAL.derivative(s, p, var, res=res)
        if R.too_big(d, R._DBIG_RAW) or R.too_big(da, R._DBIG_RAW) or not C.d_decisive(d, da):
            ctx.count("points_skipped_wide_or_oos")
            continue
        enc = R.slack_interval(d, da, 16)
        sym_enc = {}
        for key, rs in (("fwd", rfwd), ("rev", rrev)):
            if rs is None:
                continue
            rn_ = R.NORMAL.evaluate(rs, p)
            if rn_.status == "def" and C.decisive_width(rn_.root.iv, 1e-5):
                rx = R.NORMAL_WIDE.evaluate(rs, p)
                sym_enc[key] = (rn_.root.iv, rx.root.iv if rx.status == "def" else None, rs)
        ctx.count("points_with_numbers_compared")
        for rn, o in outs.items():
            v = o.value
            if rn in M.SYMBOLIC_PATH:
                key = "fwd" if rn in M.FORWARD_SYMBOLIC else "rev"
                if key not in sym_enc:
                    ctx.count("symbolic_value_not_judged")
                    continue
                own, exact, rs = sym_enc[key]
                if not R.contains(own, v):
                    ctx.violation("symbolic_route_value_wrong", f"{what}: route {rn} returned {v!r}, outside the enclosure [{R.lo_float(own)!r}, {R.hi_float(own)!r}] of its own expression {S.show(rs)[:300]}")
                elif exact is not None and not R.intersects(exact, enc):
                    ctx.violation("routes_disagree_beyond_rounding",
                                  f"{what}: symbolic route {rn} evaluates {S.show(rs)[:300]} = {v!r} but the numeric routes' true partial lies in [{R.lo_float(enc)!r}, {R.hi_float(enc)!r}] "
                                  f"(numeric routes gave {outs.get('partial_late').brief() if outs.get('partial_late') else '?'})")
                else:
                    ctx.count("symbolic_values_judged")
            else:
                if not R.contains(enc, v):
                    ctx.violation("numeric_route_value_wrong", f"{what}: route {rn} returned {v!r}, true partial in [{R.lo_float(enc)!r}, {R.hi_float(enc)!r}]")
                else:
                    ctx.count("numeric_values_judged")
                    C.track_margin(ctx, "derivative_enclosure", v, enc, what)
        # routes that take literally the same path must agree bit for bit
        for group in (("partial_late", "partial_late_name", "diff_late_component_at", "diff_late_component_then_at", "derivative_late", "derivative_late_number"),
                      ("located", "located_name", "diff_late_at_component"),
                      ("partial_early", "partial_early_name", "partial_late_after_expr", "partial_early_after_expr", "component_late_after_expr",
                       "derivative_early", "derivative_early_number", "derivative_late_after_expr", "derivative_early_after_expr", "derivative_late_after_expr_number"),
                      ("diff_early_component_at", "diff_early_component_then_at", "diff_early_at_component", "component_early_after_expr")):
            vals = {rn: outs[rn].numbits() for rn in group if rn in outs}
            if len(set(vals.values())) > 1:
                # the property promises agreement up to rounding (judged above), not bit-identity: reported, not a verdict
                ctx.count("same_spelling_routes_not_bit_identical")
        if ctx.rng.random() < 0.02:
            ctx.sample({"spec": S.show(s), "variable": var, "point": S.show_point(p), "routes": {k: o.brief() for k, o in list(outs.items())[:17]}})

    # ---- structural promises -------------------------------------------------------------------------
    _structural(ctx, s, mode, var, names, pts, what0)


def _structural(ctx, s, mode, var, names, pts, what0):
    import smoothmath as sm
    import smoothmath.expression as E
    mk = lambda: S.build(s, mode)
    pe = M.call(lambda: sm.Partial(mk(), var, compute_early=True).as_expression(), numeric=False)
    pl = M.call(lambda: sm.Partial(mk(), E.Variable(var)).as_expression(), numeric=False)
    ctx.count("structural_checks")
    if pe.kind != pl.kind:
        ctx.violation("early_late_as_expression_differ", f"{what0}: early as_expression() gave {pe.brief()}, late gave {pl.brief()}")
    elif pe.kind == "obj":
        a, b = RF.reflect(pe.value), RF.reflect(pl.value)
        eq = M.call(lambda: (pe.value == pl.value) and (pl.value == pe.value), numeric=False)
        if not S.spec_equal(a, b) or eq.kind != "obj" or eq.value is not True:
            ctx.violation("early_late_as_expression_differ", f"{what0}: Partial early as_expression() = {S.show(a)[:300]} but late = {S.show(b)[:300]} (== says {eq.brief()} {eq.value!r})")
    if len(names) <= 1 and (var in names or not names):
        de = M.call(lambda: sm.Derivative(mk(), compute_early=True).as_expression(), numeric=False)
        dl = M.call(lambda: sm.Derivative(mk()).as_expression(), numeric=False)
        if de.kind != dl.kind:
            ctx.violation("early_late_as_expression_differ", f"Derivative of {S.show(s)}: early as_expression() gave {de.brief()}, late gave {dl.brief()}")
        elif de.kind == "obj":
            a, b = RF.reflect(de.value), RF.reflect(dl.value)
            if not S.spec_equal(a, b) or not (de.value == dl.value):
                ctx.violation("early_late_as_expression_differ", f"Derivative of {S.show(s)}: early = {S.show(a)[:300]}, late = {S.show(b)[:300]}")
            if pl.kind == "obj" and names and not S.spec_equal(b, RF.reflect(pl.value)):
                ctx.violation("derivative_vs_partial_expression_differ", f"Derivative(e).as_expression() = {S.show(b)[:300]} but Partial(e, {var}).as_expression() = {S.show(RF.reflect(pl.value))[:300]} for e = {S.show(s)}")
    # Differential(e).component(v) == Partial(e, v)
    for early_d in (False, True):
        for early_p in (False, True):
            r = M.call(lambda: (sm.Differential(mk(), compute_early=early_d).component(var), sm.Partial(mk(), E.Variable(var), compute_early=early_p)), numeric=False)
            if r.kind != "obj":
                ctx.violation("component_construction_failed", f"{what0}: {r.brief()}")
                continue
            c, p_ = r.value
            eq = M.call(lambda: (c == p_, p_ == c, hash(c) == hash(p_), c != p_), numeric=False)
            if eq.kind != "obj" or eq.value != (True, True, True, False):
                ctx.violation("component_not_equal_to_partial", f"{what0}: Differential(e, compute_early={early_d}).component(v) vs Partial(e, v, compute_early={early_p}): (==, ==, hash==, !=) = {eq.value!r} {eq.brief()}")
    # Differential(e).at(p) == LocatedDifferential(e, p), component by component
    for p in pts[:3]:
        res = R.NORMAL.evaluate(s, p)
        if res.status != "def":
            continue
        for early_d in (False, True):
            r = M.call(lambda: (sm.Differential(mk(), compute_early=early_d).at(sm.Point(**p)), sm.LocatedDifferential(mk(), sm.Point(**p))), numeric=False)
            if r.kind != "obj":
                ctx.violation("located_construction_failed", f"{what0} at {S.show_point(p)}: {r.brief()}")
                continue
            a, b = r.value
            eq = M.call(lambda: (a == b, b == a, hash(a) == hash(b)), numeric=False)
            if eq.kind != "obj" or eq.value != (True, True, True):
                ctx.violation("differential_at_not_equal_to_located", f"{what0} at {S.show_point(p)} (compute_early={early_d}): (==, ==, hash==) = {eq.value!r} {eq.brief()}")
            for v in names + ["q"]:
                va, vb = M.call(a.component, v), M.call(b.component, E.Variable(v))
                ctx.count("located_components_compared")
                if va.kind != "num" or vb.kind != "num":
                    ctx.violation("located_component_failed", f"{what0} at {S.show_point(p)}: component {v}: {va.brief()} / {vb.brief()}")
                elif va.numbits() != vb.numbits():
                    if v not in names:
                        if va.value != vb.value:
                            ctx.violation("differential_at_components_differ", f"{what0} at {S.show_point(p)}: absent variable {v}: {va.value!r} vs {vb.value!r}")
                    elif not early_d:
                        # (an early Differential evaluates its simplified partial expressions: those values are judged
                        # against their own expression's enclosure in the main part of the check, not here)
                        _, d_, da_, _ = R.NORMAL.derivative(s, p, v, res=res)
                        if not (R.too_big(d_, R._DBIG_RAW) or R.too_big(da_, R._DBIG_RAW)) and C.d_decisive(d_, da_):
                            enc_ = R.slack_interval(d_, da_, 16)
                            if not (R.contains(enc_, va.value) and R.contains(enc_, vb.value)):
                                ctx.violation("differential_at_components_differ", f"{what0} at {S.show_point(p)}: Differential(e).at(p).component({v}) = {va.value!r}, LocatedDifferential(e, p).component({v}) = {vb.value!r}, true partial in [{R.lo_float(enc_)!r}, {R.hi_float(enc_)!r}]")
                    ctx.count("located_components_not_bit_identical")


def deciding(m):
    out = []
    if m["counts"].get("numeric_values_judged", 0) == 0 or m["counts"].get("symbolic_values_judged", 0) == 0:
        out.append("numeric or symbolic route values were never judged")
    if not m["routes"].get("numeric") or not m["routes"].get("symbolic"):
        out.append("M-ROUTE saw only one of the two Partial.at paths")
    return out
