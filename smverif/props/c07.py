"""C07 - derivative queries fail exactly where the expression itself is undefined."""
from __future__ import annotations

from .. import gen as G
from .. import monitors as M
from .. import refmodel as R
from .. import spec as S
from . import common as C

MONITORS = ("math", "route")
LEVEL = "exploration"
PLAN = {"quick": {"cases": 2200, "shards": 16, "timeout": 900},
        "thorough": {"cases": 60000, "shards": 32, "timeout": 7200}}
RULE = ("85% boundary-seeking cases (guarded node with exactly solvable argument; points on / next to / either side of the boundary; "
        "contexts: exponent of a base evaluating to one, factor next to a zero, zero numerator, Exponential base 1, variable-free undefined "
        "sub-trees, nesting, sharing), 15% random trees; every numeric route (13, +4 for one-variable trees), early and late, for "
        "every variable of the tree plus an absent one; verdict per (route, point): DomainError iff the reference says the "
        "EXPRESSION is decisively undefined at the point; evaluation = one route query at a decisive point; non-trivial = the tree "
        "contains a guarded constructor; distinct by (spec, variable, point)")
ASSUMPTIONS = [
    "three-valued definedness of the reference model (C02); indeterminate and out-of-scope points skipped",
    "points supply all variables of the expression",
]
GUARDED = {"Divide", "Reciprocal", "Logarithm", "Power", "NthRoot"}


def make_case(rng, tier):
    if rng.random() < 0.85:
        t, pts, info = G.boundary_case(rng)
        fam = "boundary:" + info["context"]
        guard = info["guard"]
        pts = [pts[0]] + rng.sample(pts[1:], 3)
    else:
        t = G.rand_tree(rng, G.rand_size(rng, 2, 16)); fam = "plain"; guard = "-"
        pts = [G.rand_point(rng, sorted(S.variables(t)), extra=0.1) for _ in range(3)]
    names = sorted(S.variables(t))
    return {"kind": "routes_domain", "family": fam, "guard": guard, "spec": S.to_json(t),
            "points": [S.point_to_json(p) for p in pts], "mode": G.share(rng, t),
            "vars": names + [rng.choice(["q", "t"])]}


def run_shard(ctx):
    C.run_corpus(ctx)
    n = C.budget(ctx, PLAN[ctx.tier]["cases"])
    for _ in range(n):
        ctx.run_case(make_case(ctx.rng, ctx.tier))


def check_case(ctx, case):
    s = S.from_json(case["spec"])
    mode = case.get("mode", "tree")
    names = sorted(S.variables(s))
    if not C.tree_in_scope(s, [S.point_from_json(pj) for pj in case["points"]]):
        ctx.count("inputs_out_of_scope")
        return
    ctx.count("cases")
    pts = [S.point_from_json(pj) for pj in case["points"]]
    refs = [R.NORMAL.evaluate(s, p) for p in pts]
    for r in refs:
        ctx.hist("reference_status", r.status)
    if not any(r.status in ("def", "undef") for r in refs):
        return
    has_guard = bool(S.kinds(s) & GUARDED)
    for var in case.get("vars", names):
        route_names = M.routes_for(names, var, pts[0] if pts else {})
        routes = {rn: M.Route(rn, S.build(s, mode), var) for rn in route_names}
        for p, pj, res in zip(pts, case["points"], refs):
            st = res.status
            if st not in ("def", "undef"):
                continue
            what = f"d/d{var} of {S.show(s)} at {S.show_point(p)}"
            for rn, ro in routes.items():
                if rn.endswith("_number") and var not in p:
                    continue
                o = ro.query(dict(p))
                ctx.evaluation()
                ctx.hist("routes", rn)
                ctx.hist("outcome", f"{st}->{o.cls}")
                if st == "undef" and o.kind != "DomainError":
                    ctx.violation("derivative_where_expression_undefined",
                                  f"{what}: the expression is undefined here ({res.undef[0]}) but route {rn} gave {o.brief()}")
                elif st == "def" and o.kind == "DomainError":
                    ctx.violation("domainerror_where_expression_defined", f"{what}: the expression is defined here but route {rn} raised DomainError: {o.msg}")
                elif st == "def" and o.kind != "num":
                    ctx.violation("bad_outcome_where_expression_defined", f"{what}: route {rn} gave {o.brief()}")
            if has_guard:
                ctx.nontrivial(case["spec"], var, pj)
            ctx.hist("family", case.get("family", "?"))
            ctx.hist("guard", case.get("guard", "-"))
            if st == "undef" and ctx.rng.random() < 0.01:
                ctx.sample({"spec": S.show(s), "variable": var, "point": S.show_point(p), "reference": st, "why": res.undef[0], "routes_queried": len(routes)})


def deciding(m):
    out = []
    o = m["hists"].get("outcome", {})
    if not any(k.startswith("undef->") for k in o):
        out.append("no decisively undefined point was exercised")
    if not any(k.startswith("def->") for k in o):
        out.append("no decisively defined point was exercised")
    return out
