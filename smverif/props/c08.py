"""C08 - simplification preserves meaning and never shrinks the domain."""
from __future__ import annotations
from fractions import Fraction

from .. import gen as G
from .. import hooks
from .. import monitors as M
from .. import poly as P
from .. import refmodel as R
from .. import reflect as RF
from .. import spec as S
from . import common as C

MONITORS = ("math", "route", "rw")
LEVEL = "exploration"
PLAN = {"quick": {"cases": 4200, "shards": 16, "timeout": 900},
        "thorough": {"cases": 90000, "shards": 32, "timeout": 10800, "small_scope": True}}
EXHAUSTIVE = {"quick": False, "thorough": False}
RULE = ("rewrite inputs: every rule's left-hand shape with random sub-expressions in the holes (all n, m in 1..8, equal/different bases, 0-4 "
        "siblings before/between/after, embedded under every parent kind), random trees, constant-foldable and undefined variable-free "
        "sub-trees; thorough adds the exhaustive small scope (node o children o leaf grandchildren over a reduced alphabet, sharded) and "
        "150-400 node inputs that make the rewriter give up. Each input goes through _normalize() directly, through the public carrier "
        "Partial(Multiply(t, E), t).as_expression(), and through as_expression() of its derivatives; M-RW records every rule firing "
        "(rule, site before, site after), every constant fold, and the (input, fully reduced, normal form) triples. Every recorded pair is "
        "judged at 6+ points: wherever 'before' is decisively defined, 'after' must be defined and its exact value (constants widened 4u) "
        "must meet before's enclosure; rational pairs additionally by polynomial identity and on a dyadic grid. "
        "evaluation = one judged (before, after) pair; non-trivial = pair whose sides differ and before has >= 2 nodes; distinct by (rule, before, after)")
ASSUMPTIONS = [
    "reference model as in C01/C05; a pair is judged only at decisive, in-scope points of 'before'",
    "per-step judgement covers every prefix of a rewrite sequence, hence partially reduced results",
    "polynomial identity with exact Fractions (1e-11 relative on coefficients when folded constants were rounded)",
]

_SEEN = set()
GRID = [-2, -1, 0, 1, 2, 0.5, -0.5, 3]


def make_case(rng, tier):
    r = rng.random()
    if r < 0.55:
        name = rng.choice(G.RULE_SHAPES)
        t = G.rule_case(rng, name=name); fam = "rule:" + name
    elif r < 0.75:
        t = G.rand_tree(rng, G.rand_size(rng, 2, 30 if tier == "quick" else 60)); fam = "plain"
    elif r < 0.85:
        t = G.rand_tree(rng, G.rand_size(rng, 2, 20), G.RATIONAL); fam = "rational"
    elif r < 0.93:
        t, _, info = G.boundary_case(rng); fam = "boundary"
    else:
        t = C.special_tree(rng); fam = "special"
    entry = rng.choices(["normalize", "carrier", "derivative"], [60, 20, 20])[0]
    return {"kind": "rewrite", "family": fam, "entry": entry, "spec": S.to_json(t), "pseed": rng.randrange(1 << 30)}


def run_shard(ctx):
    C.run_corpus(ctx)
    plan = PLAN[ctx.tier]
    n = C.budget(ctx, plan["cases"])
    for _ in range(n):
        ctx.run_case(make_case(ctx.rng, ctx.tier))
    if plan.get("small_scope"):
        lim = int(C.scale() * 200000) or None
        for t in G.small_scope_iter(ctx.shard, ctx.nshards, limit=lim):
            ctx.run_case({"kind": "rewrite", "family": "small_scope", "entry": "normalize", "spec": S.to_json(t), "pseed": 7, "light": True})
            ctx.count("small_scope_inputs")
        for i in range(C.budget(ctx, 64)):
            length = ctx.rng.randint(40, 130)
            t, fam = G.chain(ctx.rng, length)
            ctx.run_case({"kind": "rewrite", "family": "giveup:" + fam, "entry": "normalize", "spec": S.to_json(t), "pseed": i, "big": True})


def points_for(rng, names, n=6):
    names = sorted(names)
    pts = []
    if not names:
        return [{}]
    pool = G.POINT_VALUES
    pts.append({v: rng.choice([-1.5, -2.0, -0.5, -3.0, -0.25]) for v in names})
    pts.append({v: rng.choice([1.5, 2.0, 0.5, 3.0, 0.25]) for v in names})
    pts.append({v: rng.choice([0, 1, -1, 0.0, 2]) for v in names})
    while len(pts) < n:
        pts.append({v: rng.choice(pool) for v in names})
    return pts


def judge_pair(ctx, before, after, label, rng, npoints=6, big=False):
    """before/after are specs.  Returns number of points judged."""
    key = S.digest(label.split(":")[0] if label.startswith("rule:") else label, S.to_json(before), S.to_json(after))
    if key in _SEEN and not ctx.quiet:
        ctx.count("pairs_deduplicated")
        return 0
    if not ctx.quiet:
        _SEEN.add(key)
        if len(_SEEN) > 400000:
            _SEEN.clear()
    ctx.evaluation()
    ctx.hist("pair_kinds", label.split(":")[0])
    if before[0] == "<unreflectable>" or after[0] == "<unreflectable>":
        ctx.violation("malformed_rewrite_result", f"{label}: {before if before[0].startswith('<') else after}")
        return 0
    same = S.spec_equal(before, after)
    names = S.variables(before)
    extra = S.variables(after) - names
    if extra:
        ctx.violation("rewrite_introduces_variable", f"{label}: {S.show(before)[:300]} => {S.show(after)[:300]} mentions new variables {sorted(extra)}")
        return 0
    if same:
        ctx.count("pairs_identical")
        return 0
    if S.size(before) >= 2:
        ctx.nontrivial(label.split(":")[0], S.to_json(before), S.to_json(after))
    txt = f"{label}: {S.show(before)[:400]}  =>  {S.show(after)[:400]}"
    # all points at once on the rational fragment
    grid_pts = []
    if not big and P.is_rational_spec(before) and P.is_rational_spec(after) and S.size(before) <= 40:
        try:
            rb = P.to_rational(before)
            ra = P.to_rational(after)
            ok, worst = P.same_function(rb, ra, P.to_rational_abs(before), P.to_rational_abs(after), rel_tol=Fraction(1, 10 ** 11))
            ctx.count("polynomial_identities_checked")
            if worst > 0:
                ctx.count("polynomial_identities_up_to_rounding")
            if not ok:
                ctx.violation("not_the_same_rational_function", f"{txt}: sides differ as rational functions (relative coefficient defect {worst:.3g})")
                return 0
        except (P.TooBig, P.NotRational):
            ctx.count("polynomial_identity_too_big")
        except ZeroDivisionError:
            ctx.count("polynomial_identity_zero_denominator")
        nm = sorted(names)
        if 1 <= len(nm) <= 2:
            import itertools
            for combo in itertools.product(GRID[:5] if len(nm) == 2 else GRID, repeat=len(nm)):
                grid_pts.append(dict(zip(nm, combo)))
    judged = 0
    for p in points_for(rng, names, npoints) + grid_pts:
        rb = R.NORMAL.evaluate(before, p)
        if rb.status != "def":
            ctx.count("points_before_" + rb.status)
            continue
        # domain half: decisive only if it survives a 4u perturbation of every float-typed constant of the result
        # (absorption while folding, e.g. 2.0 + 1e-20 -> 2.0, is "rounding of folded constants", not a rewrite defect)
        rx = R.EXACT_WIDE_ALL.evaluate(after, p)
        if rx.status == "undef":
            ctx.violation("domain_shrunk", f"{txt}: at {S.show_point(p)} the input is defined (value in [{R.lo_float(rb.root.iv)!r}, {R.hi_float(rb.root.iv)!r}]) but the result is not ({rx.undef[0]})")
            return judged
        # values: 'after' may carry folded constants that are off by rounding, and re-associated arithmetic
        ra = R.NORMAL_WIDE.evaluate(after, p)
        if ra.status != "def":
            ctx.count("points_after_" + ra.status)
            continue
        judged += 1
        ctx.count("points_judged")
        if not R.intersects(ra.root.iv, rb.root.iv):
            ctx.violation("value_changed", f"{txt}: at {S.show_point(p)} the input's value lies in [{R.lo_float(rb.root.iv)!r}, {R.hi_float(rb.root.iv)!r}] but the result's value in [{R.lo_float(ra.root.iv)!r}, {R.hi_float(ra.root.iv)!r}]")
            return judged
    return judged


def collect_pairs(events):
    """(label, before_spec, after_spec) from an M-RW event log."""
    pairs = []
    fr_stack = []
    for ev in events:
        k = ev[0]
        if k == "fire":
            pairs.append(("rule:" + ev[1], ev[2], ev[3]))
        elif k == "begin":
            fr_stack.append(ev[1])
        elif k == "end":
            start = fr_stack.pop() if fr_stack else None
            if start is not None:
                pairs.append(("fully_reduce" + (":gave_up" if ev[3] else ""), hooks._spec(start), hooks._spec(ev[1])))
        elif k == "norm_end":
            pairs.append(("normalize", hooks._spec(ev[1]), hooks._spec(ev[2])))
    return pairs


def check_case(ctx, case):
    import random
    import smoothmath as sm
    import smoothmath.expression as E
    s = S.from_json(case["spec"])
    rng = random.Random(case.get("pseed", 0))
    entry = case.get("entry", "normalize")
    big = bool(case.get("big"))
    if not C.tree_in_scope(s):
        ctx.count("inputs_out_of_scope")
        return
    ctx.count("cases")
    ctx.hist("family", case.get("family", "?").split(":")[0])
    ctx.hist("entry", entry)
    e = S.build(s, "tree")
    hooks.rw_start("specs")
    nwarn = len(hooks.ST.warnings)
    try:
        if entry == "normalize":
            got = M.call(e._normalize, numeric=False)
            expect = s
        elif entry == "carrier":
            t_ = "t_"
            got = M.call(lambda: sm.Partial(E.Multiply(E.Variable(t_), e), t_).as_expression(), numeric=False)
            expect = s
        else:
            names = sorted(S.variables(s)) or ["x"]
            var = rng.choice(names)
            if rng.random() < 0.5:
                got = M.call(lambda: sm.Partial(e, var).as_expression(), numeric=False)
            else:
                got = M.call(lambda: sm.Differential(e, compute_early=True).component(var).as_expression(), numeric=False)
            expect = None
    finally:
        events = hooks.rw_stop()
    warned = len(hooks.ST.warnings) > nwarn
    if warned:
        ctx.count("inputs_where_rewriter_gave_up")
    if got.kind != "obj":
        if C.overflow_excusable(s, got):
            ctx.count("overflow_with_undefined_constant_part_unfiltered")
            return
        ctx.violation("simplification_raised", f"{entry} of {S.show(s)[:400]}: {got.brief()}")
        return
    try:
        out = RF.reflect(got.value)
    except RF.ReflectError as ex:
        ctx.violation("malformed_rewrite_result", f"{entry} of {S.show(s)[:400]}: {ex}")
        return
    pairs = collect_pairs(events)
    ctx.count("rule_firings_observed", sum(1 for p in pairs if p[0].startswith("rule:")))
    light = bool(case.get("light"))
    for (label, b, a) in pairs:
        judge_pair(ctx, b, a, label, rng, npoints=3 if (light or big) else 6, big=big)
    if expect is not None:
        judge_pair(ctx, expect, out, "end_to_end:" + entry, rng, npoints=4 if light else 8, big=big)
    if ctx.rng.random() < 0.01 and not ctx.quiet:
        ctx.sample({"input": S.show(s)[:300], "entry": entry, "output": S.show(out)[:300],
                    "rules_fired": [p[0][5:] for p in pairs if p[0].startswith("rule:")][:12]})


def deciding(m):
    out = []
    if m["counts"].get("points_judged", 0) == 0:
        out.append("no rewrite pair was judged at a point")
    if m["counts"].get("rule_firings_observed", 0) == 0:
        out.append("M-RW observed no rule firing")
    return out


def extra_coverage(m):
    out = {"rules_total": len(m["rules_seen"]), "rules_fired": len([r for r in m["rules_fired"] if not r.startswith("<")])}
    n = m["counts"].get("small_scope_inputs", 0)
    if n:
        tot = G.small_scope_total()
        out.update({"small_scope_inputs": n, "small_scope_total": tot, "small_scope_enumerated_completely": n == tot})
    return out
