"""C09 - answers do not depend on what was computed before."""
from __future__ import annotations

from .. import histories as H
from .. import hooks
from .. import monitors as M
from .. import refmodel as R
from .. import reflect as RF
from .. import spec as S
from . import common as C
from . import c11

MONITORS = ("math", "route", "rw", "memo")
LEVEL = "exploration"
PLAN = {"quick": {"cases": 1400, "shards": 16, "timeout": 900},
        "thorough": {"cases": 24000, "shards": 32, "timeout": 10800}}
RULE = ("operation histories (quick: 30-60 ops, thorough: up to 300) over a pool of 2-14 expressions built as a DAG (new members and "
        "outputs of as_expression()/_normalize() embed earlier members as shared objects), 5-6 points including out-of-domain, "
        "coordinate-missing and int-spelled ones; ops: at(Point), at(number), Partial/Derivative/Differential/LocatedDifferential "
        "construction early and late, their at / component / component_at / as_expression, _normalize, composition. Three layers: "
        "(1) M-MEMO on every _evaluate cache hit recomputes the node on a fresh copy at the current point (bit for bit); "
        "(2) M-FLAGS at quiescent points audits every newly set _is_fully_reduced / _evaluation_failed flag on a fresh rebuild; "
        "(3) after every op the same op is performed on freshly built never-used copies and outcomes compared (class; numbers bit "
        "for bit; expressions structurally). evaluation = one compared operation; non-trivial = history with >= 2 shared members; "
        "distinct by history digest + op index")
ASSUMPTIONS = [
    "a fresh twin replays only the object's own documented construction chain (constructor flags and whether as_expression() was called, which documentedly switches a late Partial to its symbolic path), never other operations",
    "ops whose reference evaluation leaves [1e-60, 1e60] are skipped before the library sees them",
]


def make_case(rng, tier):
    nops = rng.randint(30, 60) if tier == "quick" else rng.choice([40, 80, 150, 300])
    return {"kind": "history", "hist": H.gen_history(rng, nops)}


def run_shard(ctx):
    C.run_corpus(ctx)
    n = C.budget(ctx, PLAN[ctx.tier]["cases"])
    for _ in range(n):
        ctx.run_case(make_case(ctx.rng, ctx.tier))


def same_outcome(a, b):
    """None if equal, else description."""
    if a.cls != b.cls:
        return f"used objects: {a.brief()}; fresh copies: {b.brief()}"
    if a.kind == "num":
        if a.numbits() != b.numbits():
            return f"used objects returned {a.value!r}, fresh copies {b.value!r}"
        return None
    if a.kind == "obj":
        try:
            sa = RF.reflect(a.value)
        except RF.ReflectError:
            return None if type(a.value) is type(b.value) else f"types differ: {type(a.value).__name__} vs {type(b.value).__name__}"
        try:
            sb = RF.reflect(b.value)
        except RF.ReflectError as e:
            return f"fresh result not reflectable: {e}"
        if not S.spec_equal(sa, sb):
            return f"used objects returned {S.show(sa)[:300]}, fresh copies {S.show(sb)[:300]}"
    return None


class FlagAuditor:
    def __init__(self):
        self.done = {}

    def audit(self, ctx, hist_objs, label):
        import smoothmath as sm
        for root in hist_objs:
            for node in RF.nodes(root).values():
                d = node.__dict__
                key = id(node)
                if d.get("_is_fully_reduced") and (key, "r") not in self.done:
                    self.done[(key, "r")] = node
                    try:
                        sp = RF.reflect(node)
                    except RF.ReflectError:
                        continue
                    if S.size(sp) > 80:
                        continue
                    bad = c11.rule_free_violations(sp)
                    ctx.count("flags_fully_reduced_audited")
                    if bad:
                        ctx.violation("fully_reduced_flag_on_reducible_node",
                                      f"{label}: node {S.show(sp)[:300]} carries _is_fully_reduced but {bad[0][0]} still applies at {S.show(bad[0][1])[:200]}")
                if d.get("_evaluation_failed") and (key, "f") not in self.done:
                    self.done[(key, "f")] = node
                    try:
                        sp = RF.reflect(node)
                    except RF.ReflectError:
                        continue
                    with hooks.busy():
                        o = M.call(S.build(sp, "tree").at, sm.Point())
                    ctx.count("flags_evaluation_failed_audited")
                    if o.kind != "DomainError":
                        ctx.violation("evaluation_failed_flag_on_evaluable_node",
                                      f"{label}: node {S.show(sp)[:300]} carries _evaluation_failed but a fresh copy evaluates to {o.brief()}")


def check_case(ctx, case, on_op=None):
    hist = case["hist"]
    ctx.count("cases")
    hooks.ST.memo_on = True
    hooks.ST.memo_viol = []
    nwarn = len(hooks.ST.warnings)
    try:
        h = H.History(hist)
        auditor = FlagAuditor()
        shared = sum(1 for m in hist["members"] if "Ref" in str(m)) + sum(1 for o in hist["ops"] if o["op"] == "compose")
        dg = S.digest(hist["members"], hist["points"])
        for idx, op in enumerate(hist["ops"]):
            if not h.scope_ok(op, R, C.tree_in_scope):
                ctx.count("ops_out_of_scope")
                h.skip(op)
                continue
            try:
                out, twin = h.run(op)
            except H.Dead:
                ctx.count("ops_on_dead_objects")
                continue
            hooks.ST.memo_on = False
            with hooks.busy():
                tw = twin()
            hooks.ST.memo_on = True
            ctx.evaluation()
            ctx.hist("ops", op["op"])
            ctx.hist("outcomes", out.cls)
            label = f"op #{idx} {op}"
            diff = same_outcome(out, tw)
            if diff is not None:
                ctx.violation("history_dependent_answer", f"{label} after {idx} earlier operations: {diff}")
            if op["op"] == "at" and out.kind in ("num", "DomainError"):
                # a fresh twin in the same process shares module-level state with the used objects; the reference
                # model does not, so evaluations are also judged against it
                i_ = op["e"] % len(h.objs)
                ref = R.NORMAL.evaluate(h.full[i_], h.points[op["p"] % len(h.points)])
                if ref.status == "def" and out.kind == "num" and not R.contains(ref.root.iv, out.value) and not (ref.root.fx and ref.root.ex == out.value):
                    ctx.violation("history_dependent_answer", f"{label}: {S.show(h.full[i_])[:300]} evaluated to {out.value!r}, reference enclosure [{R.lo_float(ref.root.iv)!r}, {R.hi_float(ref.root.iv)!r}]")
                elif ref.status == "def" and out.kind == "DomainError":
                    ctx.violation("history_dependent_answer", f"{label}: {S.show(h.full[i_])[:300]} raised DomainError at a point the reference says is inside the domain")
                elif ref.status == "undef" and out.kind == "num":
                    ctx.violation("history_dependent_answer", f"{label}: {S.show(h.full[i_])[:300]} returned {out.value!r} at a point the reference says is outside the domain ({ref.undef[0]})")
                ctx.count("evaluations_judged_by_reference")
            if out.kind == "num" and op["op"] in ("partial_at", "derivative_at", "component_at", "located_component"):
                _judge_derivative_op(ctx, h, op, out, label)
            if hooks.ST.memo_viol:
                v = hooks.ST.memo_viol[0]
                ctx.violation("stale_memo_returned", f"{label}: node {S.show(S.from_json(v['node']))[:300]} at {v['point']}: memoised {v['memoised']}, fresh copy gives {v['fresh']}")
                hooks.ST.memo_viol = []
            if shared >= 2:
                ctx.nontrivial(dg.hex(), idx)
            if (idx % 10 == 9 or idx == len(hist["ops"]) - 1) and len(hooks.ST.warnings) == nwarn:
                hooks.ST.memo_on = False
                auditor.audit(ctx, list(h.objs), label)
                hooks.ST.memo_on = True
            if on_op is not None:
                on_op(h, idx, op, out)
        if ctx.rng.random() < 0.02 and not ctx.quiet:
            ctx.sample({"members": [S.show(f)[:120] for f in h.full[:6]], "points": [S.show_point(p) for p in h.points],
                        "ops": [str(o) for o in hist["ops"][:12]], "n_ops": len(hist["ops"])})
    finally:
        hooks.ST.memo_on = False


def _judge_derivative_op(ctx, h, op, out, label):
    """Numbers returned by derivative objects inside a history are also judged against the reference AD
    (a module-level cache poisons fresh twins of the same process just as it poisons the used objects)."""
    try:
        rec = h.recipes[op["d"] % len(h.dobjs)]
        var = op.get("var")
        pidx = op.get("p")
        chain = rec
        while chain[0] in ("component", "located_from"):
            if chain[0] == "component" and var is None:
                var = chain[2]
            if chain[0] == "located_from" and pidx is None:
                pidx = chain[2]
            chain = chain[1]
        if chain[0] == "partial" and var is None:
            var = chain[2]
        if chain[0] == "located" and pidx is None:
            pidx = chain[2]
        i = chain[1]
        full = h.full[i]
        names = sorted(S.variables(full))
        if chain[0] == "derivative":
            if len(names) > 1:
                return
            var = names[0] if names else "whatever"
        if "v" in op:
            p = {var: op["v"]} if names else {}
        elif pidx is not None:
            p = h.points[pidx % len(h.points)]
        else:
            return
        if var is None:
            return
        res = R.NORMAL.evaluate(full, p)
        if res.status != "def":
            return
        _, d, da, _ = R.NORMAL.derivative(full, p, var, res=res)
        if R.too_big(d, R._DBIG_RAW) or R.too_big(da, R._DBIG_RAW) or not C.d_decisive(d, da):
            return
        enc = R.slack_interval(d, da, 16)
        ctx.count("derivative_answers_judged_by_reference")
        if not R.contains(enc, out.value):
            ctx.violation("history_dependent_answer", f"{label}: d/d{var} of {S.show(full)[:300]} at {S.show_point(p)} returned {out.value!r}, true partial in [{R.lo_float(enc)!r}, {R.hi_float(enc)!r}]")
    except (H.Dead, KeyError, IndexError):
        return


def deciding(m):
    out = []
    if m["memo_hits"] == 0 or m["memo_checked"] == 0:
        out.append("M-MEMO never saw (or never verified) a cache hit")
    if m["counts"].get("flags_fully_reduced_audited", 0) == 0:
        out.append("M-FLAGS audited no _is_fully_reduced flag")
    if m["hook_counts"].get("memo.monitor_errors", 0) > m["memo_checked"] // 10 + 5:
        out.append(f"M-MEMO monitor errors: {m['hook_counts'].get('memo.monitor_errors')}")
    return out
