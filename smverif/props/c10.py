"""C10 - operations never change their operands."""
from __future__ import annotations

from .. import histories as H
from .. import hooks
from .. import monitors as M
from .. import refmodel as R
from .. import reflect as RF
from .. import spec as S
from . import common as C

MONITORS = ("math", "route", "rw", "mut")
LEVEL = "exploration"
PLAN = {"quick": {"cases": 1200, "shards": 16, "timeout": 900},
        "thorough": {"cases": 5000, "shards": 32, "timeout": 10800}}
RULE = ("the G-hist operation histories of C09 (DAG pools with shared sub-expression objects, long-lived Point objects, derivative "
        "objects, outputs of as_expression()/_normalize() kept by the 'caller'); before the first and after every operation a snapshot of "
        "every existing object is compared with its former self: reflected structure with parameter types, repr, hash, == against a "
        "freshly built copy (both operand orders); every 5 ops and at the end every pooled expression is also evaluated at two points "
        "and compared with a fresh copy. M-MUT records every re-assignment of a structural field and every in-place list/set/dict "
        "mutation with the writer's stack (to locate a change; the verdict is the snapshot). evaluation = one object snapshot "
        "comparison; non-trivial = object that shares a sub-expression object with another pooled object or was returned by the library; "
        "distinct by (history digest, op index, object index)")
ASSUMPTIONS = [
    "object identity of children is not part of a snapshot: the property is about what an object denotes",
    "memo fields (_value, _is_fully_reduced, _evaluation_failed, Partial._synthetic_partial) are not structural",
]


def make_case(rng, tier):
    nops = rng.randint(25, 50) if tier == "quick" else rng.choice([40, 80, 150, 300])
    return {"kind": "history", "hist": H.gen_history(rng, nops)}


def run_shard(ctx):
    C.run_corpus(ctx)
    n = C.budget(ctx, PLAN[ctx.tier]["cases"])
    for _ in range(n):
        ctx.run_case(make_case(ctx.rng, ctx.tier))


def snap_expr(obj):
    try:
        sp = RF.reflect(obj)
        struct = S.to_json(sp)
    except RF.ReflectError as e:
        sp, struct = None, "unreflectable: " + str(e)
    text = M.call(lambda: (repr(obj), str(obj)), numeric=False)
    hs = M.call(lambda: hash(obj), numeric=False)
    vn = obj.__dict__.get("_variable_names")
    return {"struct": struct, "text": text.value if text.kind == "obj" else text.brief(),
            "hash": hs.value if hs.kind == "obj" else hs.brief(), "vars": sorted(map(str, vn)) if vn is not None else None}, sp


def snap_point(p):
    try:
        coords = list(p.__dict__["_coordinates"].items())
    except Exception as e:
        coords = "unreadable " + repr(e)
    text = M.call(lambda: repr(p), numeric=False)
    return {"coords": [(k, S._num_to_json(v)) for k, v in coords] if isinstance(coords, list) else coords,
            "text": text.value if text.kind == "obj" else text.brief()}


def snap_dobj(d):
    dd = d.__dict__
    out = {"type": type(d).__name__}
    text = M.call(lambda: repr(d), numeric=False)
    out["text"] = text.value if text.kind == "obj" else text.brief()
    oe = dd.get("_original_expression")
    if oe is not None:
        try:
            out["expr"] = S.to_json(RF.reflect(oe))
        except RF.ReflectError as e:
            out["expr"] = "unreflectable"
    for k in ("_variable_name",):
        if k in dd:
            out[k] = dd[k]
    if "_point" in dd:
        out["point"] = snap_point(dd["_point"])
    if "_numeric_partials" in dd and isinstance(dd["_numeric_partials"], dict):
        out["numeric_partials"] = sorted((k, repr(v)) for k, v in dd["_numeric_partials"].items())
    return out


class Watch:
    def __init__(self, ctx, h, dg):
        self.ctx, self.h, self.dg = ctx, h, dg
        self.exprs = []       # (label, obj, snapshot, spec)
        self.points = []
        self.dobjs = []
        self.seen = set()

    def add_new(self):
        h = self.h
        for i, o in enumerate(h.objs):
            if id(o) not in self.seen:
                self.seen.add(id(o))
                sn, sp = snap_expr(o)
                self.exprs.append((f"pool[{i}]", o, sn, sp))
        for i, d in enumerate(h.dobjs):
            if d is not None and id(d) not in self.seen:
                self.seen.add(id(d))
                self.dobjs.append((f"derivative_object[{i}]", d, snap_dobj(d), i))
        for i, p in enumerate(h.point_objs or []):
            if id(p) not in self.seen:
                self.seen.add(id(p))
                self.points.append((f"point[{i}]", p, snap_point(p)))

    def add_returned(self, obj, label):
        if id(obj) in self.seen:
            return
        try:
            RF.reflect(obj)
        except RF.ReflectError:
            return
        self.seen.add(id(obj))
        sn, sp = snap_expr(obj)
        self.exprs.append((label, obj, sn, sp))

    def compare(self, idx, op, deep=False):
        ctx = self.ctx
        where = f"after op #{idx} {op}"
        for j, (label, o, sn, sp) in enumerate(self.exprs):
            now, _ = snap_expr(o)
            ctx.evaluation()
            if now != sn:
                keys = [k for k in sn if sn[k] != now.get(k)]
                ctx.violation("operand_changed", f"{where}: {label} changed in {keys}: was {str({k: sn[k] for k in keys})[:400]} now {str({k: now[k] for k in keys})[:400]}; M-MUT events: {hooks.ST.mut_events[-3:]}")
                self.exprs[j] = (label, o, now, sp)
                continue
            if sp is not None and deep:
                with hooks.busy():
                    fresh = S.build(sp, "tree")
                eq = M.call(lambda: (o == fresh, fresh == o, o != fresh, hash(o) == hash(fresh)), numeric=False)
                ctx.count("fresh_copy_comparisons")
                if eq.kind != "obj" or eq.value != (True, True, False, True):
                    ctx.violation("operand_no_longer_equal_to_fresh_copy", f"{where}: {label} {S.show(sp)[:300]}: (==, ==, !=, hash==) against a fresh copy = {eq.value!r} {eq.brief()}")
                for p in self.h.points[:2]:
                    if not C.tree_in_scope(sp) or R.NORMAL.evaluate(sp, p).oos:
                        continue
                    import smoothmath as sm
                    a = M.call(o.at, sm.Point(**p))
                    with hooks.busy():
                        b = M.call(fresh.at, sm.Point(**p))
                    ctx.count("fresh_copy_evaluations")
                    if a.cls != b.cls or (a.kind == "num" and a.numbits() != b.numbits()):
                        ctx.violation("operand_evaluates_differently", f"{where}: {label} {S.show(sp)[:300]} at {S.show_point(p)}: {a.brief()} but a fresh copy gives {b.brief()}")
            if label.startswith("returned") or "Ref" in str(self.h.hist["members"]) or j >= len(self.h.hist["members"]):
                ctx.nontrivial(self.dg, idx, j)
        for j, (label, p, sn) in enumerate(self.points):
            now = snap_point(p)
            ctx.evaluation()
            if now != sn:
                ctx.violation("point_changed", f"{where}: {label} was {sn} now {now}; M-MUT events: {hooks.ST.mut_events[-3:]}")
                self.points[j] = (label, p, now)
        for j, (label, d, sn, i) in enumerate(self.dobjs):
            now = snap_dobj(d)
            ctx.evaluation()
            if now != sn:
                keys = [k for k in sn if sn[k] != now.get(k)]
                ctx.violation("derivative_object_changed", f"{where}: {label} changed in {keys}: was {str({k: sn[k] for k in keys})[:300]} now {str({k: now.get(k) for k in keys})[:300]}")
                self.dobjs[j] = (label, d, now, i)
            elif deep:
                rec = self.h.recipes[i]
                with hooks.busy():
                    tw = M.call(lambda: self.h.fresh_dobj(rec), numeric=False)
                if tw.kind == "obj":
                    eq = M.call(lambda: (d == tw.value, tw.value == d, hash(d) == hash(tw.value)), numeric=False)
                    ctx.count("fresh_copy_comparisons")
                    if eq.kind != "obj" or eq.value != (True, True, True):
                        ctx.violation("derivative_object_no_longer_equal_to_fresh_copy", f"{where}: {label} {sn['text'][:200]}: (==, ==, hash==) = {eq.value!r} {eq.brief()}")


def check_case(ctx, case):
    hist = case["hist"]
    ctx.count("cases")
    hooks.ST.mut_on = True
    hooks.ST.mut_events = []
    try:
        h = H.History(hist, reuse_points=True)
        dg = S.digest(hist["members"], hist["points"]).hex()
        w = Watch(ctx, h, dg)
        w.add_new()
        nops = len(hist["ops"])
        for idx, op in enumerate(hist["ops"]):
            if not h.scope_ok(op, R, C.tree_in_scope):
                ctx.count("ops_out_of_scope")
                h.skip(op)
                continue
            try:
                out, twin = h.run(op)
            except H.Dead:
                ctx.count("ops_on_dead_objects")
                continue
            ctx.hist("ops", op["op"])
            if out.kind == "obj" and op["op"] in ("as_expression", "normalize"):
                w.add_returned(out.value, f"returned_by_op#{idx}")
            w.compare(idx, op, deep=(idx % 5 == 4 or idx == nops - 1))
            w.add_new()
        ctx.count("mut_events_recorded", len(hooks.ST.mut_events))
        for ev in hooks.ST.mut_events[:5]:
            ctx.hist("mut_events", str(ev)[:200])
        if ctx.rng.random() < 0.02 and not ctx.quiet:
            ctx.sample({"members": [S.show(f)[:120] for f in h.full[:6]], "ops": [str(o) for o in hist["ops"][:10]], "n_ops": nops,
                        "objects_watched": len(w.exprs) + len(w.points) + len(w.dobjs), "mut_events": len(hooks.ST.mut_events)})
    finally:
        hooks.ST.mut_on = False


def deciding(m):
    out = []
    if m["evaluations"] == 0:
        out.append("no snapshot comparison was made")
    if m["counts"].get("fresh_copy_comparisons", 0) == 0:
        out.append("no comparison against a fresh copy was made")
    return out
