"""C11 - simplification terminates in a rule-free form, without cycles."""
from __future__ import annotations

from .. import gen as G
from .. import hooks
from .. import monitors as M
from .. import reflect as RF
from .. import spec as S
from . import common as C

MONITORS = ("math", "route", "rw")
LEVEL = "exploration"
PLAN = {"quick": {"cases": 5000, "shards": 16, "timeout": 900},
        "thorough": {"cases": 60000, "shards": 32, "timeout": 10800, "small_scope": True}}
RULE = ("rewrite traces recorded by M-RW from two drivers: the library's own _fully_reduce (every call, whatever the entry point: "
        "_normalize() on rule-shaped / random inputs, long chains of every rule family, as_expression() of both symbolic derivative "
        "routes) and a harness driver that keeps calling _take_reduction_step on the real objects past the library's 1000-step cap. "
        "Offline checker per trace: no whole-tree form recurs once a different form has intervened; steps <= 2n^2+10n+10 and every "
        "form <= 3n+16 nodes for input size n; n <= 20 => finished by the library driver without its warning; the final form is "
        "rule-free (every reducer and the constant folder invoked on every node of a fresh copy). thorough adds the exhaustive small "
        "scope and chains up to 400 nodes. evaluation = one trace; non-trivial = trace with >= 2 rule firings; distinct by input spec")
ASSUMPTIONS = [
    "a step that only sets a memo flag produces an equal form; consecutive equal forms are therefore collapsed before looking for revisits",
    "quadratic budget calibrated on the worst families found (about n^2/18 + 2n steps, <= 1.3n nodes): correct code sits >= 4x below the alarm line",
]


def make_case(rng, tier):
    r = rng.random()
    hi_chain = 60 if tier == "quick" else 130
    if r < 0.35:
        t = G.rule_case(rng); fam = "rule"
    elif r < 0.55:
        t, f = G.chain(rng, rng.randint(3, hi_chain)); fam = "chain:" + f
    elif r < 0.8:
        t = G.rand_tree(rng, G.rand_size(rng, 2, 60 if tier == "quick" else 300)); fam = "plain"
    elif r < 0.9:
        t = G.rand_tree(rng, rng.randint(2, 20)); fam = "small"
    else:
        t = G.friendly_tree(rng, G.rand_size(rng, 2, 40)); fam = "friendly"
    entry = rng.choices(["normalize", "harness_driver", "derivative_fwd", "derivative_rev"], [45, 20, 20, 15])[0]
    if S.size(t) > 30 and entry.startswith("derivative"):
        entry = "normalize"
    return {"kind": "trace", "family": fam, "entry": entry, "spec": S.to_json(t), "pseed": rng.randrange(1 << 30)}


def run_shard(ctx):
    C.run_corpus(ctx)
    plan = PLAN[ctx.tier]
    n = C.budget(ctx, plan["cases"])
    for _ in range(n):
        ctx.run_case(make_case(ctx.rng, ctx.tier))
    if plan.get("small_scope"):
        lim = int(C.scale() * 200000) or None
        for t in G.small_scope_iter(ctx.shard, ctx.nshards, limit=lim):
            ctx.run_case({"kind": "trace", "family": "small_scope", "entry": "normalize", "spec": S.to_json(t), "pseed": 7, "light": True})
            ctx.count("small_scope_inputs")
        for i in range(C.budget(ctx, 96)):
            t, fam = G.chain(ctx.rng, ctx.rng.randint(100, 400) // 3)
            ctx.run_case({"kind": "trace", "family": "longchain:" + fam, "entry": "harness_driver", "spec": S.to_json(t), "pseed": i})


def traces_from(events):
    """Splits an M-RW event log into traces of the library driver."""
    out = []
    stack = []
    for ev in events:
        k = ev[0]
        if k == "begin":
            stack.append({"root": ev[1], "root_spec": ev[3] if len(ev) > 3 and ev[3] is not None else hooks._spec(ev[1]),
                          "forms": [], "fires": 0, "warned": False})
        elif k == "form" and stack:
            stack[-1]["forms"].append((ev[2], ev[3]))
        elif k == "fire" and stack:
            stack[-1]["fires"] += 1
        elif k == "end" and stack:
            tr = stack.pop()
            tr["warned"] = ev[3]
            tr["final"] = ev[1]
            out.append(tr)
    return out


def rule_free_violations(final_spec):
    """Independent audit of a final form: every reducer and the constant folder on every node of a fresh copy."""
    bad = []
    with hooks.busy():
        fresh = S.build(final_spec, "tree")
        for node in RF.nodes(fresh).values():
            try:
                folded = node._consolidate_expression_lacking_variables()
            except Exception as e:
                folded = None
            if folded is not None:
                bad.append(("<constant-fold>", RF.reflect(node)))
                continue
            reducers = getattr(node, "_reducers", None)
            if reducers is None:
                continue
            try:
                lst = list(reducers)
            except Exception:
                continue
            for red in lst:
                try:
                    r = red()
                except Exception as e:
                    r = None
                if r is not None:
                    bad.append((getattr(red, "__name__", "?"), RF.reflect(node)))
                    break
    return bad


def check_trace(ctx, tr, label, driver):
    n = S.size(tr["root_spec"])
    forms = tr["forms"]
    steps = len(forms)
    if n > hooks.ST.rw_form_limit or any(sp is None for sp, _ in forms):
        ctx.count("traces_beyond_size_limit_not_judged")
        return
    ctx.evaluation()
    ctx.hist("driver", driver)
    ctx.hist("input_size", (n // 10) * 10 if n < 100 else (n // 50) * 50)
    if tr["fires"] >= 2:
        ctx.nontrivial(S.to_json(tr["root_spec"]))
    txt = f"{label} ({driver}), input of {n} nodes {S.show(tr['root_spec'])[:300]}"
    budget = 2 * n * n + 10 * n + 10
    if n >= 4:
        ctx.margin("steps_over_quadratic_budget", steps / budget, txt[:200])
    # (a) no revisit
    seen = {}
    prev = S.digest(S.to_json(tr["root_spec"]))
    seen[prev] = -1
    for i, (sp, same_obj) in enumerate(forms):
        if sp[0] == "<unreflectable>":
            ctx.violation("malformed_intermediate_form", f"{txt}: step {i}: {sp}")
            return
        dg = S.digest(S.to_json(sp))
        if dg != prev:
            if dg in seen:
                ctx.violation("rewrite_cycle", f"{txt}: the form after step {i} already occurred after step {seen[dg]}: {S.show(sp)[:300]}")
                return
            seen[dg] = i
            prev = dg
        sz = S.size(sp)
        if sz > 3 * n + 16:
            ctx.violation("expression_grows", f"{txt}: form after step {i} has {sz} nodes (> 3n+16)")
            return
        if n >= 4:
            ctx.margin("form_size_over_bound", sz / (3 * n + 16))
    # (b) quadratic budget
    if steps > budget:
        ctx.violation("too_many_steps", f"{txt}: {steps} steps (> 2n^2+10n+10 = {budget})")
        return
    # (c) small inputs finish inside the library's own budget
    if driver == "library":
        if tr["warned"]:
            ctx.count("library_driver_gave_up")
            if n <= 20:
                ctx.violation("gave_up_on_small_input", f"{txt}: the library's driver hit its step bound and warned")
                return
    # (d) rule-free final form
    if not tr["warned"]:
        final_spec = hooks._spec(tr["final"])
        bad = rule_free_violations(final_spec)
        ctx.count("final_forms_audited")
        if bad:
            ctx.violation("final_form_not_rule_free", f"{txt}: final form {S.show(final_spec)[:300]} still admits {bad[0][0]} at {S.show(bad[0][1])[:200]}")


def check_case(ctx, case):
    import random
    import smoothmath as sm
    s = S.from_json(case["spec"])
    if not C.tree_in_scope(s):
        ctx.count("inputs_out_of_scope")
        return
    rng = random.Random(case.get("pseed", 0))
    entry = case.get("entry", "normalize")
    ctx.count("cases")
    ctx.hist("family", case.get("family", "?").split(":")[0])
    ctx.hist("entry", entry)
    e = S.build(s, "tree")
    n = S.size(s)
    label = f"{entry} of {case.get('family', '?')}"
    if entry == "harness_driver":
        cap = 2 * n * n + 10 * n + 12
        hooks.rw_start("forms")
        x = e
        steps = 0
        failed = None
        try:
            while steps <= cap:
                if x.__dict__.get("_is_fully_reduced"):
                    break
                o = M.call(x._take_reduction_step, numeric=False)
                if o.kind != "obj":
                    failed = o
                    break
                x = o.value
                steps += 1
        finally:
            events = hooks.rw_stop()
        if failed is not None:
            if C.overflow_excusable(s, failed):
                ctx.count("overflow_with_undefined_constant_part_unfiltered")
                return
            ctx.violation("reduction_step_raised", f"{label}: {S.show(s)[:300]}: {failed.brief()}")
            return
        forms = [(ev[2], ev[3]) for ev in events if ev[0] == "form"]
        tr = {"root": e, "root_spec": s, "forms": forms, "fires": sum(1 for ev in events if ev[0] == "fire"),
              "warned": False, "final": x}
        if steps > cap:
            ctx.violation("too_many_steps", f"{label}: input of {n} nodes {S.show(s)[:300]} not reduced after {steps} steps (> 2n^2+10n+10)")
            return
        check_trace(ctx, tr, label, "harness")
        return
    hooks.rw_start("forms")
    try:
        if entry == "normalize":
            got = M.call(e._normalize, numeric=False)
        else:
            names = sorted(S.variables(s)) or ["x"]
            var = rng.choice(names)
            if entry == "derivative_fwd":
                got = M.call(lambda: sm.Partial(e, var).as_expression(), numeric=False)
            else:
                got = M.call(lambda: sm.Differential(e, compute_early=True).component(var).as_expression(), numeric=False)
    finally:
        events = hooks.rw_stop()
    if got.kind != "obj":
        if C.overflow_excusable(s, got):
            ctx.count("overflow_with_undefined_constant_part_unfiltered")
            return
        ctx.violation("simplification_raised", f"{label}: {S.show(s)[:300]}: {got.brief()}")
        return
    traces = traces_from(events)
    ctx.count("library_driver_traces", len(traces))
    for tr in traces:
        if case.get("light") and len(tr["forms"]) <= 1:
            ctx.count("trivial_traces_skipped")
            continue
        check_trace(ctx, tr, label, "library")
    if ctx.rng.random() < 0.005 and traces and not ctx.quiet:
        tr = max(traces, key=lambda t: len(t["forms"]))
        ctx.sample({"input": S.show(s)[:300], "entry": entry, "traces": len(traces), "longest_trace_steps": len(tr["forms"]),
                    "longest_trace_rule_firings": tr["fires"], "final": S.show(hooks._spec(tr["final"]))[:200]})


def deciding(m):
    out = []
    if m["evaluations"] == 0:
        out.append("no rewrite trace was recorded")
    if m["counts"].get("final_forms_audited", 0) == 0:
        out.append("no final form was audited for rule-freeness")
    return out


def extra_coverage(m):
    out = {}
    n = m["counts"].get("small_scope_inputs", 0)
    if n:
        tot = G.small_scope_total()
        out.update({"small_scope_inputs": n, "small_scope_total": tot, "small_scope_enumerated_completely": n == tot})
    return out
