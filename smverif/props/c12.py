"""C12 - equality is structural, an equivalence, and consistent with hashing."""
from __future__ import annotations
import itertools
import math

from .. import gen as G
from .. import hooks
from .. import monitors as M
from .. import spec as S
from . import common as C

MONITORS = ("math", "route")
LEVEL = "exploration"
PLAN = {"quick": {"cases": 640, "shards": 16, "timeout": 900},
        "thorough": {"cases": 12000, "shards": 32, "timeout": 7200}}
RULE = ("families of 10-30 objects: a base expression, fresh rebuilds (tree and DAG), int/float re-spellings (2 <-> 2.0, n = 3 <-> 3.0, "
        "base omitted <-> e; a quarter of the expression families over constants beyond 2**53 where the spellings stop agreeing), single mutations (n +- 1, other base/name/value, arguments swapped, dropped, added, constructor replaced by its "
        "sibling, at the root and deep inside), the same for Points (permuted coordinate order, one value/name changed, one coordinate "
        "added/dropped) and for Derivative/Partial/Differential/LocatedDifferential (early and late) built on them, plus foreign objects. "
        "Checked on all ordered pairs: == equals the spec-level oracle, != is its negation, symmetry, no exception; on all triples "
        "of a sample: transitivity; equal pairs have equal hashes; sets/dicts built from a family have one member per oracle class "
        "and find every rebuild. evaluation = one ordered pair; non-trivial = pair of library objects of the same type; distinct by (family digest, i, j)")
ASSUMPTIONS = ["oracle: spec equality written from the property statement (same constructor, pairwise equal arguments in order, numerically equal parameters)"]


class Foreign:
    """An unrelated class carrying attributes named like the internals."""
    def __init__(self):
        self._inner = self._left = self._right = None
        self._inners = []
        self._parameter = 2
        self.value = 1
        self.name = "x"
        self._coordinates = {}
        self._original_expression = None
        self._variable_name = "x"
        self._point = None


def foreign_objects():
    return [None, 0, 1.0, "x", "Variable(\"x\")", (1, 2), [1], {"x": 1}, object(), Foreign(), float("nan"), True, 2 + 3j, frozenset(), type]


def make_case(rng, tier):
    r = rng.random()
    if r < 0.5:
        t = G.rand_tree(rng, G.rand_size(rng, 1, 14)); kind = "expr"
        if rng.random() < 0.25:
            # constants beyond 2**53, where int and float spellings stop being interchangeable
            t = G.rand_tree(rng, G.rand_size(rng, 1, 8), G.Cfg(consts=G.BIG_INTS + [1, 2.0, -0.5], p_var=0.4))
    elif r < 0.7:
        t = G.rule_case(rng); kind = "expr"
    elif r < 0.85:
        t = G.rand_tree(rng, G.rand_size(rng, 1, 8)); kind = "derivative_objects"
    else:
        t = ("Constant", 0); kind = "points"
    return {"kind": kind, "spec": S.to_json(t), "pseed": rng.randrange(1 << 30)}


def run_shard(ctx):
    C.run_corpus(ctx)
    n = C.budget(ctx, PLAN[ctx.tier]["cases"])
    for _ in range(n):
        ctx.run_case(make_case(ctx.rng, ctx.tier))


def expr_family(rng, t):
    """[(label, spec)] with oracle = S.spec_equal."""
    fam = [("base", t), ("rebuild", t), ("respelled", G.respell(rng, t)), ("respelled2", G.respell(rng, t))]
    for i in range(rng.randint(6, 14)):
        m = G.mutate_once(rng, t)
        if m is not None:
            fam.append((f"mutant{i}", m))
            if rng.random() < 0.3:
                fam.append((f"mutant{i}_rebuild", G.respell(rng, m)))
    return fam


def point_family(rng, big=True):
    names = rng.sample(["x", "y", "z", "w", "self", "x1"], rng.randint(0, 4))
    # coordinates beyond 2**53 only where the points are compared, never where the library evaluates at them (int ** huge int does not return)
    vals = [1, 2.0, -0.5, 0, 3, 1.5] + ([2 ** 53, 2 ** 53 + 1, 9007199254740992.0, 10 ** 17 + 3] if big else [])
    base = {n: rng.choice(vals) for n in names}
    fam = [("base", dict(base)), ("rebuild", dict(base))]
    items = list(base.items())
    for i in range(3):
        rng.shuffle(items)
        fam.append((f"permuted{i}", dict(items)))
    fam.append(("respelled", {k: (float(v) if isinstance(v, int) else (int(v) if float(v).is_integer() else v)) for k, v in base.items()}))
    for i, n in enumerate(names):
        d = dict(base); d[n] = base[n] + 1
        fam.append((f"value_changed{i}", d))
        d = dict(base); d[n] = math.nextafter(float(base[n]), math.inf)
        fam.append((f"value_next_float{i}", d))
        d = dict(base); d[n] = float(base[n]) * (1 + 1e-10) if base[n] else 1e-300
        fam.append((f"value_nearly_equal{i}", d))
        d = dict(base); del d[n]
        fam.append((f"dropped{i}", d))
        d = dict(base); v = d.pop(n); d[n + "_"] = v
        fam.append((f"renamed{i}", d))
    d = dict(base); d["extra"] = 1
    fam.append(("added", d))
    fam.append(("empty", {}))
    return fam


def points_equal(a, b):
    return set(a) == set(b) and all(a[k] == b[k] for k in a)


def check_family(ctx, objs, oracle, label, dg):
    """objs: list of (label, object, key) where oracle(key_i, key_j) -> bool for library objects,
    key None marks a foreign object (equal only to itself... by identity semantics we only require no exception and False)."""
    n = len(objs)
    eqm = {}
    for i in range(n):
        for j in range(n):
            li, a, ka = objs[i]
            lj, b, kb = objs[j]
            r = M.call(lambda: (a == b, a != b), numeric=False)
            ctx.evaluation()
            if r.kind != "obj":
                ctx.violation("comparison_raised", f"{label}: {li} == {lj} raised: {r.brief()}  [{_txt(a)} vs {_txt(b)}]")
                continue
            eq, ne = r.value
            if not isinstance(eq, bool) or not isinstance(ne, bool):
                ctx.violation("comparison_not_boolean", f"{label}: {li} ==/!= {lj} returned {eq!r}/{ne!r}")
                continue
            if eq == ne:
                ctx.violation("ne_is_not_negation_of_eq", f"{label}: {li} vs {lj}: == is {eq}, != is {ne}  [{_txt(a)} vs {_txt(b)}]")
            eqm[(i, j)] = eq
            if ka is not None and kb is not None:
                want = type(a) is type(b) and oracle(ka, kb)
                if type(a) is type(b):
                    ctx.nontrivial(dg, i, j)
                if eq != want:
                    ctx.violation("equality_not_structural", f"{label}: {li} == {lj} is {eq}, the structural oracle says {want}: {_txt(a)} vs {_txt(b)}")
            elif (ka is None) != (kb is None):
                if eq:
                    ctx.violation("equal_to_foreign_object", f"{label}: {li} == {lj} is True: {_txt(a)} vs {_txt(b)}")
    for (i, j), eq in eqm.items():
        if (j, i) in eqm and eqm[(j, i)] != eq:
            ctx.violation("equality_not_symmetric", f"{label}: {objs[i][0]} == {objs[j][0]} is {eq} but the reverse is {eqm[(j, i)]}: {_txt(objs[i][1])} vs {_txt(objs[j][1])}")
    lib = [k for k in range(n) if objs[k][2] is not None]
    for i in lib:
        if not eqm.get((i, i), True):
            ctx.violation("equality_not_reflexive", f"{label}: {objs[i][0]} != itself: {_txt(objs[i][1])}")
    # transitivity on a sample of triples
    trip = list(itertools.permutations(lib[:9], 3))
    for (i, j, k) in trip:
        if eqm.get((i, j)) and eqm.get((j, k)) and not eqm.get((i, k), True):
            ctx.violation("equality_not_transitive", f"{label}: {objs[i][0]} == {objs[j][0]} == {objs[k][0]} but first != third")
    ctx.count("triples_checked", len(trip))
    # hashing
    hs = {}
    for i in lib:
        h = M.call(lambda: hash(objs[i][1]), numeric=False)
        if h.kind != "obj":
            ctx.violation("hash_raised", f"{label}: hash({objs[i][0]}) raised {h.brief()}: {_txt(objs[i][1])}")
            continue
        h2 = M.call(lambda: hash(objs[i][1]), numeric=False)
        if h2.value != h.value:
            ctx.violation("hash_unstable", f"{label}: hash({objs[i][0]}) changed between two calls")
        hs[i] = h.value
    for i in lib:
        for j in lib:
            if i < j and eqm.get((i, j)) and i in hs and j in hs and hs[i] != hs[j]:
                ctx.violation("equal_objects_unequal_hashes", f"{label}: {objs[i][0]} == {objs[j][0]} but hashes differ: {_txt(objs[i][1])} vs {_txt(objs[j][1])}")
    # set / dict behaviour: one member per oracle class, every rebuild found
    classes = []
    for i in lib:
        for c in classes:
            if type(objs[c[0]][1]) is type(objs[i][1]) and oracle(objs[c[0]][2], objs[i][2]):
                c.append(i)
                break
        else:
            classes.append([i])
    r = M.call(lambda: ({objs[i][1] for i in lib}, {objs[i][1]: i for i in lib}), numeric=False)
    if r.kind != "obj":
        ctx.violation("set_or_dict_raised", f"{label}: building a set/dict of the family raised {r.brief()}")
    else:
        st, dc = r.value
        ctx.count("sets_built")
        if len(st) != len(classes) or len(dc) != len(classes):
            ctx.violation("set_size_wrong", f"{label}: a set of the family has {len(st)} members (dict: {len(dc)}), the oracle has {len(classes)} classes")
        for i in lib:
            f = M.call(lambda: (objs[i][1] in st, objs[i][1] in dc), numeric=False)
            if f.kind != "obj" or f.value != (True, True):
                ctx.violation("member_not_found", f"{label}: {objs[i][0]} not found in the set/dict built from the family: {f.brief()} {f.value!r}")


def _txt(o):
    try:
        return repr(o)[:200]
    except Exception as e:
        return f"<{type(o).__name__} repr raised {e!r}>"


def check_case(ctx, case):
    import random
    import smoothmath as sm
    import smoothmath.expression as E
    rng = random.Random(case.get("pseed", 0))
    t = S.from_json(case["spec"])
    kind = case["kind"]
    ctx.count("cases")
    ctx.hist("family_kind", kind)
    dg = S.digest(case["spec"], kind, case.get("pseed")).hex()
    foreign = [("foreign:" + type(f).__name__, f, None) for f in rng.sample(foreign_objects(), 5)]
    if kind == "expr":
        fam = expr_family(rng, t)
        objs = [(lab, S.build(sp, "dag" if rng.random() < 0.3 else "tree"), sp) for lab, sp in fam]
        check_family(ctx, objs + foreign, S.spec_equal, "expressions", dg)
        if not ctx.quiet and ctx.rng.random() < 0.03:
            ctx.sample({"family": [(lab, S.show(sp)[:100]) for lab, sp in fam[:8]], "size": len(objs) + len(foreign)})
    elif kind == "points":
        fam = point_family(rng)
        objs = [(lab, sm.Point(**d), d) for lab, d in fam]
        check_family(ctx, objs + foreign, points_equal, "points", dg)
        if not ctx.quiet and ctx.rng.random() < 0.03:
            ctx.sample({"family": [(lab, S.show_point(d)) for lab, d in fam[:8]]})
    else:
        fam = expr_family(rng, t)[:8]
        pts = point_family(rng, big=False)[:5]
        objs = []
        for lab, sp in fam:
            names = sorted(S.variables(sp))
            for early in (False, True):
                if not C.tree_in_scope(sp):
                    continue
                mk = lambda: S.build(sp, "tree")
                for v in (names[:1] or ["x"]) + ["q"]:
                    o = M.call(lambda: sm.Partial(mk(), v if early else E.Variable(v), compute_early=early), numeric=False)
                    if o.kind == "obj":
                        objs.append((f"Partial[{lab},{v},{'early' if early else 'late'}]", o.value, ("Partial", sp, v)))
                o = M.call(lambda: sm.Differential(mk(), compute_early=early), numeric=False)
                if o.kind == "obj":
                    objs.append((f"Differential[{lab},{'early' if early else 'late'}]", o.value, ("Differential", sp)))
                if len(names) <= 1:
                    o = M.call(lambda: sm.Derivative(mk(), compute_early=early), numeric=False)
                    if o.kind == "obj":
                        objs.append((f"Derivative[{lab},{'early' if early else 'late'}]", o.value, ("Derivative", sp)))
            for pl, pd in pts[:3]:
                full = {**{n: 1.5 for n in names}, **pd}
                o = M.call(lambda: sm.LocatedDifferential(S.build(sp, "tree"), sm.Point(**full)), numeric=False)
                if o.kind == "obj":
                    objs.append((f"Located[{lab},{pl}]", o.value, ("Located", sp, full)))
                o = M.call(lambda: sm.Differential(S.build(sp, "tree"), compute_early=True).at(sm.Point(**full)), numeric=False)
                if o.kind == "obj":
                    objs.append((f"LocatedViaDifferential[{lab},{pl}]", o.value, ("Located", sp, full)))
        if len(objs) > 40:
            objs = rng.sample(objs, 40)

        def oracle(a, b):
            if a[0] != b[0] or not S.spec_equal(a[1], b[1]):
                return False
            if a[0] == "Partial":
                return a[2] == b[2]
            if a[0] == "Located":
                return points_equal(a[2], b[2])
            return True
        check_family(ctx, objs + foreign, oracle, "derivative objects", dg)


def deciding(m):
    out = []
    if m["evaluations"] == 0:
        out.append("no pair compared")
    if m["counts"].get("sets_built", 0) == 0:
        out.append("no set/dict built")
    return out
