"""C13 - the printed form echoes the object."""
from __future__ import annotations
import keyword
import math

from .. import gen as G
from .. import monitors as M
from .. import reflect as RF
from .. import spec as S
from . import common as C

MONITORS = ("math", "route")
LEVEL = "exploration"
PLAN = {"quick": {"cases": 8000, "shards": 16, "timeout": 900},
        "thorough": {"cases": 250000, "shards": 32, "timeout": 7200}}
RULE = ("random / rule-shaped trees over all 15 constructors with every parameter spelling (n int / integral float, base omitted / e / int / "
        "float incl. < 1 and 1, constants int / float incl. negative, tiny, huge, many-digit, ints beyond 2**53 that no double represents), unicode and digit-first variable names; Points "
        "whose names are identifiers and not keywords; Derivative / Partial / Differential / LocatedDifferential built on them. For every "
        "object: eval(repr(o)) and eval(str(o)) in a namespace of exactly the public names must be == o (library ==) and structurally "
        "equal (reflected spec); derivative objects must print as their constructor applied to the printed expression; across each shard "
        "a map text -> spec detects two unequal expressions printing identically. evaluation = one printed object; non-trivial = "
        "expression with a parameterised constructor or >= 3 nodes; distinct by spec")
ASSUMPTIONS = ["eval namespace = smoothmath.__all__ + smoothmath.expression.__all__ only (no builtins)", "finite numeric content only"]

NAMES = ["x", "y", "z", "theta", "x1", "_u", "X", "a_b", "été", "π", "变量", "1x", "9", "x٣", "__", "Δt"]
CONST_EXTRA = [1e-7, 1e22, 123456789.123456789, -0.0, 1 / 3, 1e16, 2 ** 53 + 2, -1e-300, 1e300, 0.1 + 0.2, 5e-324, 10 ** 20, -7,
               # integers no double represents (printing through float formatting loses them)
               2 ** 53 + 1, 10 ** 17 + 3, 2 ** 64 - 1, -(2 ** 53 + 1), 10 ** 22 + 1]
_NS = None
_TEXTS = {}


def namespace():
    global _NS
    if _NS is None:
        import smoothmath
        import smoothmath.expression as E
        ns = {"__builtins__": {}}
        for n in smoothmath.__all__:
            ns[n] = getattr(smoothmath, n)
        for n in E.__all__:
            ns[n] = getattr(E, n)
        _NS = ns
    return _NS


def make_case(rng, tier):
    cfg = G.Cfg(varnames=rng.sample(NAMES, 3), consts=G.CONSTS + rng.sample(CONST_EXTRA, 5), max_n=12, float_n=0.3,
                bases=G.BASES + [1e-3, 1234.5, 0.9999999999999999, 1.0000000000000002], exp_base_one=0.1)
    r = rng.random()
    if r < 0.6:
        t = G.rand_tree(rng, G.rand_size(rng, 1, 25), cfg)
    elif r < 0.8:
        t = G.rule_case(rng, cfg)
    else:
        k = rng.choice(S.ALL)
        t = G.embed(rng, G.rand_tree(rng, 3, cfg), cfg)
    return {"kind": "print", "spec": S.to_json(t), "pseed": rng.randrange(1 << 30)}


def run_shard(ctx):
    C.run_corpus(ctx)
    n = C.budget(ctx, PLAN[ctx.tier]["cases"])
    for _ in range(n):
        ctx.run_case(make_case(ctx.rng, ctx.tier))


def roundtrip(ctx, obj, what, spec=None, is_expr=True):
    """eval(repr(obj)) == obj and eval(str(obj)) == obj."""
    texts = []
    for fn_name, fn in (("repr", repr), ("str", str)):
        t = M.call(lambda: fn(obj), numeric=False)
        ctx.evaluation()
        if t.kind != "obj" or not isinstance(t.value, str):
            ctx.violation("printing_failed", f"{fn_name}({what}) gave {t.brief()}")
            continue
        text = t.value
        texts.append(text)
        back = M.call(lambda: eval(text, dict(namespace())), numeric=False)
        if back.kind != "obj":
            ctx.violation("printed_form_does_not_evaluate", f"{fn_name} of {what} is {text[:300]!r}; evaluating it gave {back.brief()}")
            continue
        eq = M.call(lambda: (back.value == obj, obj == back.value, type(back.value) is type(obj)), numeric=False)
        if eq.kind != "obj" or eq.value != (True, True, True):
            ctx.violation("printed_form_builds_a_different_object", f"{fn_name} of {what} is {text[:300]!r}, which evaluates to an object that is not equal to the original ({eq.value!r} {eq.brief()})")
            continue
        if is_expr and spec is not None:
            try:
                sb = RF.reflect(back.value)
            except RF.ReflectError as e:
                ctx.violation("printed_form_builds_a_different_object", f"{fn_name} of {what}: {e}")
                continue
            if not S.spec_equal(sb, spec):
                ctx.violation("printed_form_builds_a_different_object", f"{fn_name} of {what} is {text[:300]!r}, which builds {S.show(sb)[:300]}")
    return texts


def check_case(ctx, case):
    import random
    import smoothmath as sm
    import smoothmath.expression as E
    rng = random.Random(case.get("pseed", 0))
    s = S.from_json(case["spec"])
    ctx.count("cases")
    e = S.build(s, "tree")
    what = f"expression {S.show(s)[:300]}"
    texts = roundtrip(ctx, e, what, s)
    for k in S.kinds(s):
        ctx.hist("constructors", k)
    if S.size(s) >= 3 or S.kinds(s) & set(S.POWN + S.BASED):
        ctx.nontrivial(case["spec"])
    # injectivity: unequal expressions never print identically
    if texts and not ctx.quiet:
        canon = S.canon(s)
        for text in set(texts):
            prev = _TEXTS.get(text)
            if prev is None:
                if len(_TEXTS) < 300000:
                    _TEXTS[text] = canon
            elif prev != canon:
                ctx.violation("unequal_expressions_print_identically", f"{S.show(s)[:300]} and {prev!r} are unequal but both print as {text[:300]!r}")
        ctx.count("texts_in_injectivity_map")
    # the collision the statement names: same shape, other constructor
    sib = G.SIBLING.get(s[0])
    if sib and s[0] in S.POWN + S.UNARY + S.BINARY + S.NARY:
        other = (sib,) + tuple(s[1:])
        if not (sib == "Logarithm" and S.base_value(s[2]) == 1):
            eo = S.build(other, "tree")
            if repr(eo) == repr(e):
                ctx.violation("unequal_expressions_print_identically", f"{S.show(s)[:200]} and {S.show(other)[:200]} both print as {repr(e)[:200]!r}")
            ctx.count("sibling_print_comparisons")
    # derivative objects print as their constructor applied to the printed expression
    if not C.tree_in_scope(s) or S.size(s) > 14:
        return
    names = sorted(S.variables(s))
    er = repr(e)
    var = rng.choice(names) if names else "x"
    cands = []
    for early in (False, True):
        cands.append((f"Partial({er}, Variable(\"{var}\"))", lambda: sm.Partial(S.build(s), var if early else E.Variable(var), compute_early=early)))
        cands.append((f"Differential({er})", lambda: sm.Differential(S.build(s), compute_early=early)))
        if len(names) <= 1:
            cands.append((f"Derivative({er})", lambda: sm.Derivative(S.build(s), compute_early=early)))
    idn = [n for n in names if n.isidentifier() and not keyword.iskeyword(n)]
    if len(idn) == len(names):
        pd = {n: rng.choice([1, 2.5, -3, 0.1, 1e-7, 7.0, 1e20, 1e16, 1.5e300, 5e-324, -0.0, 10 ** 25, 3e40, 1e100, 123456789.123456789, -1e-300, 2.0, 2 ** 53 + 1, 10 ** 17 + 3, -(2 ** 64 - 1)]) for n in names}
        if rng.random() < 0.3:
            pd["extra"] = 4
        from .. import refmodel as R
        pl = pd if not R.NORMAL.evaluate(s, pd).oos else {n: rng.choice([1, 2.5, -3, 0.1, 7.0]) for n in pd}
        if R.NORMAL.evaluate(s, pl).oos:
            pl = None
        pr = M.call(lambda: repr(sm.Point(**pl)), numeric=False) if pl is not None else None
        if pr is not None and pr.kind == "obj":
            cands.append((f"LocatedDifferential({er}, {pr.value})", lambda: sm.LocatedDifferential(S.build(s), sm.Point(**pl))))
        pt = sm.Point(**pd)
        roundtrip(ctx, pt, f"point {S.show_point(pd)}", None, is_expr=False)
        for txt in (repr(pt), str(pt)):
            # the constructor call that builds it: a Point(...) call (how coordinates are ordered or formatted is
            # left to the round trip above) that names every coordinate
            if not (txt.startswith("Point(") and txt.endswith(")") and all((k + "=") in txt for k in pd)):
                ctx.violation("point_prints_unexpectedly", f"Point with coordinates {sorted(pd)} prints as {txt[:200]!r}")
        ctx.count("points_printed")
    for expect, mk in cands:
        o = M.call(mk, numeric=False)
        if o.kind != "obj":
            continue
        ctx.count("derivative_objects_printed")
        for fn in (repr, str):
            t = M.call(lambda: fn(o.value), numeric=False)
            ctx.evaluation()
            cls_name = expect.split("(", 1)[0]
            head = f"{cls_name}({er}"
            ok_form = t.kind == "obj" and isinstance(t.value, str) and t.value.startswith(head) and t.value.endswith(")")
            if ok_form and cls_name in ("Derivative", "Differential") and t.value != head + ")":
                ok_form = False
            if not ok_form:
                # "print as their constructor applied to the printed expression": the expression part is pinned,
                # how the variable / point argument is spelled is left to the round trip below
                ctx.violation("derivative_object_prints_unexpectedly", f"expected {head[:300]!r}...), got {t.value if t.kind == 'obj' else t.brief()!r}")
        roundtrip(ctx, o.value, f"derivative object {expect[:200]}", None, is_expr=False)
    if not ctx.quiet and ctx.rng.random() < 0.002:
        ctx.sample({"spec": S.show(s)[:200], "repr": er[:200]})


def deciding(m):
    out = []
    if m["evaluations"] == 0:
        out.append("nothing printed")
    if m["counts"].get("derivative_objects_printed", 0) == 0 or m["counts"].get("points_printed", 0) == 0:
        out.append("no derivative object or point printed")
    return out
