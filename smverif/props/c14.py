"""C14 - an expression needs exactly the coordinates of the variables it mentions."""
from __future__ import annotations
import itertools

from .. import gen as G
from .. import hooks
from .. import monitors as M
from .. import refmodel as R
from .. import reflect as RF
from .. import spec as S
from . import common as C

MONITORS = ("math", "route", "rw", "vars")
LEVEL = "exploration"
PLAN = {"quick": {"cases": 1800, "shards": 16, "timeout": 900},
        "thorough": {"cases": 70000, "shards": 32, "timeout": 7200}}
RULE = ("trees over 0-4 variables whose names are drawn from every class the pattern \\w+ admits (ASCII, digit-first, underscores, unicode "
        "letters/digits, Python keywords, every parameter name of the public API: self, variable, point, expression, kwargs, name, value, n, "
        "base, inner, left, right, args, compute_early, _private); for every subset S of the variables (all subsets up to 4 variables) "
        "plus extras: at(Point(S)) never returns a number when S lacks an occurring variable and never raises CoordinateMissing when it "
        "supplies them all; every derivative route w.r.t. variables inside and outside the tree and the point likewise; at(number) and "
        "Derivative(e) accepted exactly for <= 1 variable; M-VARS checks the internal variable set of every node constructed (inputs, "
        "intermediate rewrite forms, derivative expressions); returned derivative expressions are evaluated at points supplying exactly "
        "their reflected variables. evaluation = one call; non-trivial = tree with >= 1 variable and a proper subset or an unusual name; "
        "distinct by (spec, subset)")
ASSUMPTIONS = ["ground truth V = variables reachable in the spec", "scope filter as in C01 (points out of scope are skipped)"]

NAME_CLASSES = {
    "ascii": ["x", "y", "z", "w", "theta", "alpha"],
    "digit_first": ["1x", "9", "007", "2_"],
    "underscore": ["_", "__", "_x", "a_b_"],
    "unicode": ["été", "π", "变量", "x٣", "Δt", "ß"],
    "keyword": ["class", "lambda", "for", "None", "if", "import"],
    "api_parameter": ["self", "variable", "point", "expression", "kwargs", "name", "value", "n", "base", "inner", "left", "right",
                      "args", "compute_early", "_private", "other", "variable_names", "whatever", "exponent"],
}
VALS = [1.5, 2.0, 0.5, 3.0, 0.25, 2, 1, 1.25]


def make_case(rng, tier):
    nvars = rng.choice([0, 1, 1, 2, 2, 3, 4])
    names = []
    for _ in range(nvars):
        cls = rng.choice(list(NAME_CLASSES))
        nm = rng.choice(NAME_CLASSES[cls])
        if nm not in names:
            names.append(nm)
    cfg = G.Cfg(varnames=names or ["x"], p_var=0.75 if names else 0.0, max_n=4, consts=[1, 2, 0.5, 3, 1.5])
    r = rng.random()
    if r < 0.7:
        t = G.friendly_tree(rng, G.rand_size(rng, 1, 16), cfg, p=0.9)
    else:
        t = G.rand_tree(rng, G.rand_size(rng, 1, 12), G.Cfg(**{**cfg.__dict__, "kinds": ("Add", "Multiply", "Minus", "NthPower", "Negation", "Sine", "Cosine", "Exponential")}))
    extras = [rng.choice(["extra", "q", "self", "t0"])] if rng.random() < 0.5 else []
    return {"kind": "coords", "spec": S.to_json(t), "extras": extras, "pseed": rng.randrange(1 << 30)}


def run_shard(ctx):
    C.run_corpus(ctx)
    n = C.budget(ctx, PLAN[ctx.tier]["cases"])
    for _ in range(n):
        ctx.run_case(make_case(ctx.rng, ctx.tier))


def check_case(ctx, case):
    import random
    import smoothmath as sm
    import smoothmath.expression as E
    rng = random.Random(case.get("pseed", 0))
    s = S.from_json(case["spec"])
    if not C.tree_in_scope(s):
        ctx.count("inputs_out_of_scope")
        return
    V = sorted(S.variables(s))
    extras = [x for x in case.get("extras", []) if x not in V]
    ctx.count("cases")
    ctx.hist("n_variables", len(V))
    hooks.vars_reset()
    hooks.ST.vars_on = True
    try:
        _body(ctx, rng, s, V, extras, sm, E)
    finally:
        hooks.ST.vars_on = False
    if hooks.ST.vars_viol:
        bad = hooks.ST.vars_viol[0]
        ctx.violation("stale_variable_set", f"a node built while working on {S.show(s)[:300]} claims variables {bad['claimed']} but mentions {bad['actual']}: {bad['node']}")
        hooks.ST.vars_viol = []


def _body(ctx, rng, s, V, extras, sm, E):
    full = {v: rng.choice(VALS) for v in V}
    what0 = S.show(s)[:300]
    # every name accepted by Variable works as a coordinate name and through at(number)
    for v in V:
        p1 = M.call(lambda: sm.Point(**{v: 2.0}).coordinate(v), numeric=True)
        ctx.evaluation()
        if p1.kind != "num" or p1.value != 2.0:
            ctx.violation("name_unusable_as_coordinate", f"Variable({v!r}) is legal but Point(**{{{v!r}: 2.0}}).coordinate({v!r}) gave {p1.brief()}")
        p2 = M.call(lambda: E.Variable(v).at(3.0))
        p3 = M.call(lambda: sm.Point(**{v: 2.0}).coordinate(E.Variable(v)))
        ctx.evaluation(2)
        if p2.kind != "num" or p2.value != 3.0 or p3.kind != "num":
            ctx.violation("name_unusable_as_coordinate", f"Variable({v!r}).at(3.0) gave {p2.brief()}; coordinate(Variable) gave {p3.brief()}")
        for cls, nms in NAME_CLASSES.items():
            if v in nms:
                ctx.hist("name_classes", cls)
    # all subsets
    subsets = []
    for r in range(len(V) + 1):
        subsets += list(itertools.combinations(V, r))
    for sub in subsets:
        pd = {v: full[v] for v in sub}
        for ex in extras:
            pd.setdefault(ex, 9.0)
        complete = set(sub) >= set(V)
        res = R.NORMAL.evaluate(s, pd)
        if res.oos:
            ctx.count("points_out_of_scope")
            continue
        out = M.call(lambda: S.build(s).at(sm.Point(**pd)))
        ctx.evaluation()
        what = f"{what0} at {S.show_point(pd)}"
        ctx.hist("at_outcome", ("complete" if complete else "lacking") + "->" + out.cls)
        if complete and out.kind == "CoordinateMissing":
            ctx.violation("coordinate_missing_though_supplied", f"{what}: all variables {V} are supplied, got {out.brief()}")
        if not complete and out.kind in ("num", "badnum"):
            ctx.violation("number_without_needed_coordinate", f"{what}: variables {sorted(set(V) - set(sub))} are missing but evaluation returned {out.brief()}")
        if len(V) >= 1 and (not complete or any(v in sum([NAME_CLASSES[c] for c in NAME_CLASSES if c != 'ascii'], []) for v in V)):
            ctx.nontrivial(S.to_json(s), sorted(pd))
        if complete and len(subsets) <= 16:
            # derivative routes, w.r.t. variables inside and outside V and the point
            for var in (V[:2] + ["q_absent"] + extras[:1]):
                for rn in M.routes_for(V, var, pd):
                    if rn.endswith("_number") and var not in pd:
                        continue
                    o = M.Route(rn, S.build(s), var).query(dict(pd))
                    ctx.evaluation()
                    if o.kind == "CoordinateMissing":
                        ctx.violation("coordinate_missing_though_supplied", f"{what}: route {rn} d/d{var}: all variables {V} are supplied, got {o.brief()}")
                    elif o.kind == "exc":
                        ctx.violation("foreign_exception", f"{what}: route {rn} d/d{var}: {o.brief()}")
    # at(number) and Derivative exactly for <= 1 variable
    num = M.call(S.build(s).at, 1.5)
    der = M.call(lambda: sm.Derivative(S.build(s)), numeric=False)
    ctx.evaluation(2)
    pd1 = {V[0]: 1.5} if len(V) == 1 else {}
    if len(V) <= 1:
        inscope = not R.NORMAL.evaluate(s, pd1).oos
        if inscope and num.kind not in ("num", "DomainError"):
            ctx.violation("bare_number_rejected", f"{what0} has {len(V)} variable(s) but at(1.5) gave {num.brief()}")
        if der.kind != "obj":
            ctx.violation("derivative_rejected", f"{what0} has {len(V)} variable(s) but Derivative(e) gave {der.brief()}")
        elif inscope:
            dv = M.call(der.value.at, 1.5)
            if dv.kind not in ("num", "DomainError"):
                ctx.violation("derivative_at_number_failed", f"Derivative({what0}).at(1.5) gave {dv.brief()}")
            # ... and at Points that supply the variables (if any), with extras written before or after them
            for pdx in (dict(pd1), {"extra_first": 9.0, **pd1}, {**pd1, "extra_last": 9.0}):
                for early in (False, True):
                    dp = M.call(lambda: sm.Derivative(S.build(s), compute_early=early).at(sm.Point(**pdx)))
                    ctx.evaluation()
                    if dp.kind == "CoordinateMissing":
                        ctx.violation("coordinate_missing_though_supplied", f"Derivative({what0}, compute_early={early}).at({S.show_point(pdx)}): all variables {V} are supplied, got {dp.brief()}")
                    elif dp.kind not in ("num", "DomainError"):
                        ctx.violation("foreign_exception", f"Derivative({what0}, compute_early={early}).at({S.show_point(pdx)}): {dp.brief()}")
                    elif dv.kind == "num" and dp.kind == "num" and not early and dp.numbits() != dv.numbits():
                        ctx.violation("derivative_depends_on_extra_coordinates", f"Derivative({what0}).at(1.5) = {dv.value!r} but at({S.show_point(pdx)}) = {dp.value!r}")
    else:
        if num.kind in ("num", "badnum", "DomainError", "CoordinateMissing"):
            ctx.violation("bare_number_accepted", f"{what0} has variables {V} but at(1.5) gave {num.brief()} instead of rejecting the call")
        if der.kind == "obj":
            ctx.violation("derivative_accepted", f"{what0} has variables {V} but Derivative(e) was constructed")
    ctx.hist("single_variable_shortcut", f"{min(len(V), 2)}vars:at->{num.cls},Derivative->{der.cls}")
    # derivative expressions need exactly their own variables
    if V and S.size(s) <= 14:
        var = rng.choice(V)
        for mk in (lambda: sm.Partial(S.build(s), var).as_expression(),
                   lambda: sm.Differential(S.build(s), compute_early=True).component(var).as_expression()):
            r = M.call(mk, numeric=False)
            if r.kind != "obj":
                continue
            try:
                rs = RF.reflect(r.value)
            except RF.ReflectError:
                continue
            rv = sorted(S.variables(rs))
            pd = {v: full.get(v, 1.5) for v in rv}
            if R.NORMAL.evaluate(rs, pd).oos:
                continue
            o = M.call(lambda: r.value.at(sm.Point(**pd)))
            ctx.evaluation()
            ctx.count("derivative_expressions_evaluated_at_exactly_their_variables")
            if o.kind == "CoordinateMissing":
                ctx.violation("coordinate_missing_though_supplied", f"d/d{var} of {what0} = {S.show(rs)[:300]} mentions {rv}; at {S.show_point(pd)} it gave {o.brief()}")
            if len(rv) <= 1 and not R.NORMAL.evaluate(rs, {v: 1.5 for v in rv}).oos:
                o2 = M.call(r.value.at, 1.5)
                if o2.kind not in ("num", "DomainError"):
                    ctx.violation("bare_number_rejected", f"d/d{var} of {what0} = {S.show(rs)[:300]} has {len(rv)} variable(s) but at(1.5) gave {o2.brief()}")
    if not ctx.quiet and ctx.rng.random() < 0.01:
        ctx.sample({"spec": what0, "variables": V, "subsets": len(subsets), "extras": extras})


def deciding(m):
    out = []
    o = m["hists"].get("at_outcome", {})
    if not any(k.startswith("lacking") for k in o) or not any(k.startswith("complete") for k in o):
        out.append("complete or lacking points never exercised")
    if m["vars_checked"] == 0:
        out.append("M-VARS never observed a construction")
    return out
