"""C15 - operator syntax builds exactly the named constructors."""
from __future__ import annotations
import math

from .. import gen as G
from .. import monitors as M
from .. import reflect as RF
from .. import spec as S
from . import common as C

MONITORS = ("math", "route", "rw")
LEVEL = "exploration"
PLAN = {"quick": {"cases": 4000, "shards": 16, "timeout": 900},
        "thorough": {"cases": 120000, "shards": 32, "timeout": 7200}}
RULE = ("random operand pairs a, b (all constructors, sizes 1-20, including operands that are themselves Add/Multiply/Negation so that any "
        "flattening or reordering would show) x the seven operator forms -a, a+b, a-b, a*b, a/b, a**b, a**k for k in 1..12 written as int and "
        "as integral float; each result is compared with the constructor-built twin by library == (both orders), by type, and by reflected "
        "structure with parameters (so nothing was simplified, flattened, reordered or coerced), and M-RW asserts that no rewrite rule ran; "
        "every operator is also fed non-expression operands on either side (int, float, str, None, list, tuple, complex, bool) and ** "
        "non-integral / non-positive / nan / inf exponents: each must raise. evaluation = one operator application; non-trivial = both "
        "operands have >= 2 nodes or a foreign operand; distinct by (operator, operands)")
ASSUMPTIONS = ["bool exponents are not exercised (bool is an int subclass in Python; the statement does not speak about them)"]

FOREIGN = [0, 1, 2, -3, 2.5, 1.0, "x", "2", None, [1], (1, 2), 2 + 0j, {"x": 1}, object(), float("nan"), float("inf")]
BAD_EXPONENTS = [0, -1, -2, 0.0, -3.0, 2.5, 0.5, 1e-9, float("nan"), float("inf"), -float("inf"), "2", None, 2 + 0j, [2], (3,), 1.0000000001,
                 math.nextafter(2, 3), math.nextafter(3, 2), 2.9999999999, 1 + 2 ** -45, 0.29 * 100, 4 - 1e-12]


def make_case(rng, tier):
    a = G.rand_tree(rng, G.rand_size(rng, 1, 20))
    b = G.rand_tree(rng, G.rand_size(rng, 1, 20))
    r = rng.random()
    if r < 0.3:
        a = rng.choice([("Add", a, b), ("Multiply", b, a), ("Negation", a), ("Minus", a, b), ("Power", a, b), ("NthPower", a, 2), ("Add",), ("Multiply", a)])
    if r > 0.8:
        b = rng.choice([("Add", b, a), ("Multiply", a, b, a), ("Negation", b), ("Reciprocal", b), ("Constant", 0), ("Constant", 1)])
    return {"kind": "ops", "a": S.to_json(a), "b": S.to_json(b), "pseed": rng.randrange(1 << 30)}


def run_shard(ctx):
    C.run_corpus(ctx)
    n = C.budget(ctx, PLAN[ctx.tier]["cases"])
    for _ in range(n):
        ctx.run_case(make_case(ctx.rng, ctx.tier))


def check_case(ctx, case):
    import random
    import operator
    from .. import hooks
    import smoothmath.expression as E
    rng = random.Random(case.get("pseed", 0))
    sa, sb = S.from_json(case["a"]), S.from_json(case["b"])
    ctx.count("cases")
    a, b = S.build(sa), S.build(sb)
    ks = rng.sample(range(1, 13), 3)
    forms = [
        ("-a", lambda: -a, ("Negation", sa)),
        ("a+b", lambda: a + b, ("Add", sa, sb)),
        ("a-b", lambda: a - b, ("Minus", sa, sb)),
        ("a*b", lambda: a * b, ("Multiply", sa, sb)),
        ("a/b", lambda: a / b, ("Divide", sa, sb)),
        ("a**b", lambda: a ** b, ("Power", sa, sb)),
        ("(a+b)+a", lambda: (a + b) + a, ("Add", ("Add", sa, sb), sa)),
        ("a*(b*a)", lambda: a * (b * a), ("Multiply", sa, ("Multiply", sb, sa))),
        ("-(-a)", lambda: -(-a), ("Negation", ("Negation", sa))),
        ("a-(-b)", lambda: a - (-b), ("Minus", sa, ("Negation", sb))),
    ]
    for k in ks:
        forms.append((f"a**{k}", (lambda k=k: a ** k), ("NthPower", sa, k)))
        forms.append((f"a**{float(k)}", (lambda k=k: a ** float(k)), ("NthPower", sa, k)))
        forms.append((f"pow(a,{k})", (lambda k=k: pow(a, k)), ("NthPower", sa, k)))
    fires0 = sum(hooks.ST.rw_rules_fired.values())
    for name, fn, want in forms:
        got = M.call(fn, numeric=False)
        ctx.evaluation()
        ctx.hist("operators", name.split("*" * 2)[0] + ("**k" if "**" in name and name[-1].isdigit() else "") if False else name[:6])
        what = f"{name} with a = {S.show(sa)[:150]}, b = {S.show(sb)[:150]}"
        if got.kind != "obj":
            ctx.violation("operator_raised", f"{what}: {got.brief()}")
            continue
        try:
            gs = RF.reflect(got.value)
        except RF.ReflectError as e:
            ctx.violation("operator_result_malformed", f"{what}: {e}")
            continue
        twin = S.build(want)
        eq = M.call(lambda: (got.value == twin, twin == got.value, type(got.value) is type(twin), hash(got.value) == hash(twin)), numeric=False)
        if eq.kind != "obj" or eq.value != (True, True, True, True):
            ctx.violation("operator_not_equal_to_constructor", f"{what}: result {S.show(gs)[:300]} vs constructor-built {S.show(want)[:300]}: (==, ==, same type, hash==) = {eq.value!r} {eq.brief()}")
        if not S.spec_equal(gs, want):
            ctx.violation("operator_changed_structure", f"{what}: built {S.show(gs)[:300]} instead of {S.show(want)[:300]}")
        if S.size(sa) >= 2 and S.size(sb) >= 2:
            ctx.nontrivial(name, case["a"], case["b"])
    if sum(hooks.ST.rw_rules_fired.values()) != fires0:
        ctx.violation("operator_simplified", f"a rewrite rule fired while applying operators to a = {S.show(sa)[:200]}, b = {S.show(sb)[:200]}")
    # rejections
    ops2 = [("+", operator.add), ("-", operator.sub), ("*", operator.mul), ("/", operator.truediv), ("**", operator.pow)]
    for f in rng.sample(FOREIGN, 5):
        for sym, op in ops2:
            for side in ("right", "left"):
                if sym == "**" and side == "right":
                    continue
                r = M.call((lambda: op(a, f)) if side == "right" else (lambda: op(f, a)), numeric=False)
                ctx.evaluation()
                ctx.count("foreign_operand_applications")
                if r.kind == "obj":
                    shown = repr(r.value)[:200]
                    ctx.violation("foreign_operand_accepted", f"{'a ' + sym + ' ' + repr(f) if side == 'right' else repr(f) + ' ' + sym + ' a'} returned {shown} instead of raising")
                ctx.nontrivial(sym, side, repr(f), case["a"])
    for x in rng.sample(BAD_EXPONENTS, 6):
        r = M.call(lambda: a ** x, numeric=False)
        ctx.evaluation()
        ctx.count("bad_exponent_applications")
        if r.kind == "obj":
            ctx.violation("bad_exponent_accepted", f"a ** {x!r} returned {repr(r.value)[:200]} instead of raising")
    if not ctx.quiet and ctx.rng.random() < 0.003:
        ctx.sample({"a": S.show(sa)[:150], "b": S.show(sb)[:150], "forms": [f[0] for f in forms]})


def deciding(m):
    out = []
    if m["evaluations"] == 0:
        out.append("no operator applied")
    if m["counts"].get("foreign_operand_applications", 0) == 0:
        out.append("no foreign operand tried")
    return out
