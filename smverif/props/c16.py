"""C16 - ill-formed expressions are rejected at construction."""
from __future__ import annotations
import math
from fractions import Fraction
from decimal import Decimal

from .. import gen as G
from .. import monitors as M
from .. import refmodel as R
from .. import spec as S
from . import common as C

MONITORS = ("math", "route")
LEVEL = "exploration"
PLAN = {"quick": {"cases": 40000, "shards": 16, "timeout": 900},
        "thorough": {"cases": 1500000, "shards": 32, "timeout": 7200}}
EXHAUSTIVE = {"quick": False, "thorough": False}
RULE = ("(1) a table written from the statement, enumerated completely in shard 0 of every run: every constructor x operand position x "
        "{expression, 11 kinds of foreign object}; NthPower/NthRoot x n in -5..12, huge ints, integral floats of both signs, non-integral "
        "floats, nan, +-inf, str, None, Fraction, Decimal, complex; Exponential/Logarithm x base in positive floats (tiny..huge), 0, -0.0, "
        "negatives, 1 / 1.0, str, None, complex; Variable x 60 strings (legal \\w+ incl. unicode, digits, keywords; empty, whitespace, "
        "punctuation, trailing newline, combining marks, non-str). (2) random fuzz of the same argument classes with random operand "
        "expressions and arities. Invalid => the constructor raises; valid => it returns and .n (an int equal to the integral float given), "
        ".base, .name, .value report the argument back and the object evaluates under the documented domain rules. evaluation = one "
        "constructor call; non-trivial = call with at least one out-of-range or respelled argument; distinct by (constructor, argument reprs)")
ASSUMPTIONS = [
    "n = True/False and base = nan/inf are not in the table: the statement does not classify them",
    "Constant's value is not constrained by the statement (any number is reported back)",
]

FOREIGN_OPERANDS = [None, 0, 1.5, "x", "Variable(\"x\")", (1,), [1], {"a": 1}, object(), 3 + 0j, type, b"x"]
N_VALID = [1, 2, 3, 4, 5, 7, 12, 1.0, 2.0, 3.0, 9.0, 10 ** 6, 1e6, 2 ** 70]
N_INVALID = [0, -1, -2, -5, 0.0, -0.0, -1.0, -3.0, 0.5, 1.5, 2.000001, -2.5, 1e-9, float("nan"), float("inf"), -float("inf"),
             math.nextafter(2, 3), math.nextafter(2, 1), math.nextafter(1, 0), math.nextafter(3, 4), 2.9999999999, 3.0000000001, 0.29 * 100,
             0.1 * 3 * 10 if (0.1 * 3 * 10) != 3 else 3.0000000000000004, 1 + 2 ** -40, 5 - 1e-12, math.nextafter(0, 1), -math.nextafter(1, 2),
             "2", "two", None, Fraction(3), Fraction(1, 2), Decimal(2), 2 + 0j, [2], (2,), {2}]
BASE_VALID_EXP = [math.e, 2, 10, 0.5, 0.1, 1e-300, 1e300, 1, 1.0, 3, 7.25, 0.9999999, 5e-324, 2.0, math.nextafter(1, 2), math.nextafter(1, 0), 1 + 1e-10]
BASE_VALID_LOG = [b for b in BASE_VALID_EXP if b != 1]
BASE_INVALID = [0, 0.0, -0.0, -1, -2.5, -1e-300, -math.e, -float("inf"), "2", None, 2 + 0j, [2], (2,), "e"]
NAMES_VALID = ["x", "y", "theta", "x1", "_", "__", "_x", "a_b", "X", "1x", "9", "007", "été", "π", "变量", "x٣", "Δt", "ß", "class", "lambda",
               "None", "self", "kwargs", "name", "ǅ", "x" * 200, "ａ", "ⅷ" if "ⅷ".isidentifier() else "v", "x_1_y", "٣"]
NAMES_INVALID = ["", " ", "x ", " x", "x y", "x-y", "x.y", "x+1", "x\n", "\nx", "x\t", "a,b", "x'", "\"x\"", "x()", "x[0]", "$x", "x!", "α β", "x́" if not "x́".isalnum() else "x-", "é​",
                 "​", "x\x00", "x/y", "*", "**", "{}", "x=1", None, 5, 2.5, b"x", ["x"], ("x",), object, True, "x\r", "x ", "-", "–x"]
UNARIES = ["Negation", "Reciprocal", "Cosine", "Sine"]


def table():
    """(label, constructor name, args, kwargs, valid, expected attributes)"""
    x = ("Variable", "x")
    rows = []
    for k in UNARIES:
        rows.append((k, k, ["E"], {}, True, {}))
        for f in FOREIGN_OPERANDS:
            rows.append((k, k, [f], {}, False, {}))
        rows.append((k, k, [], {}, False, {}))
        rows.append((k, k, ["E", "E"], {}, False, {}))
    for k in ("NthPower", "NthRoot"):
        for n in N_VALID:
            rows.append((k, k, ["E"], {"n": n}, True, {"n": int(n)}))
            rows.append((k, k, ["E", n], {}, True, {"n": int(n)}))
        for n in N_INVALID:
            rows.append((k, k, ["E"], {"n": n}, False, {}))
        for f in FOREIGN_OPERANDS:
            rows.append((k, k, [f], {"n": 2}, False, {}))
        rows.append((k, k, ["E"], {}, False, {}))
    for k, valid in (("Exponential", BASE_VALID_EXP), ("Logarithm", BASE_VALID_LOG)):
        rows.append((k, k, ["E"], {}, True, {"base": math.e}))
        for b in valid:
            rows.append((k, k, ["E"], {"base": b}, True, {"base": b}))
            rows.append((k, k, ["E", b], {}, True, {"base": b}))
        for b in BASE_INVALID + ([1, 1.0] if k == "Logarithm" else []):
            rows.append((k, k, ["E"], {"base": b}, False, {}))
        for f in FOREIGN_OPERANDS:
            rows.append((k, k, [f], {"base": 2}, False, {}))
    for k in S.BINARY:
        rows.append((k, k, ["E", "E"], {}, True, {}))
        for f in FOREIGN_OPERANDS:
            rows.append((k, k, [f, "E"], {}, False, {}))
            rows.append((k, k, ["E", f], {}, False, {}))
            rows.append((k, k, [f, f], {}, False, {}))
        rows.append((k, k, ["E"], {}, False, {}))
        rows.append((k, k, ["E", "E", "E"], {}, False, {}))
    for k in S.NARY:
        for ar in range(0, 6):
            rows.append((k, k, ["E"] * ar, {}, True, {}))
            for pos in range(ar):
                for f in FOREIGN_OPERANDS[:6]:
                    a = ["E"] * ar
                    a[pos] = f
                    rows.append((k, k, a, {}, False, {}))
        rows.append((k, k, [["E", "E"]], {}, False, {}))
        rows.append((k, k, [("E",)], {}, False, {}))
    for nm in NAMES_VALID:
        rows.append(("Variable", "Variable", [nm], {}, True, {"name": nm}))
    for nm in NAMES_INVALID:
        rows.append(("Variable", "Variable", [nm], {}, False, {}))
    rows.append(("Variable", "Variable", [], {}, False, {}))
    for v in [0, 1, -2, 2.5, -0.0, 1e300, 5e-324, 10 ** 30, math.pi]:
        rows.append(("Constant", "Constant", [v], {}, True, {"value": v}))
    rows.append(("Constant", "Constant", [], {}, False, {}))
    return rows


def run_shard(ctx):
    C.run_corpus(ctx)
    if ctx.shard == 0:
        rows = table()
        for i, row in enumerate(rows):
            ctx.run_case({"kind": "table", "row": i})
        ctx.count("table_rows_enumerated", len(rows))
    n = C.budget(ctx, PLAN[ctx.tier]["cases"])
    for _ in range(n):
        ctx.run_case({"kind": "fuzz", "pseed": ctx.rng.randrange(1 << 30)})


_TABLE = None


def check_case(ctx, case):
    import random
    global _TABLE
    if case["kind"] == "table":
        if _TABLE is None:
            _TABLE = table()
        label, k, args, kwargs, valid, attrs = _TABLE[case["row"]]
        rng = random.Random(case["row"])
        _try(ctx, rng, k, args, kwargs, valid, attrs, "table")
        return
    rng = random.Random(case["pseed"])
    k = rng.choice(S.ALL)
    hole = lambda: "E"
    valid = True
    attrs = {}
    kwargs = {}
    if k == "Variable":
        if rng.random() < 0.5:
            nm = "".join(rng.choice("abxyz_019éπΔ") for _ in range(rng.randint(1, 6)))
            args, attrs = [nm], {"name": nm}
        else:
            nm = "".join(rng.choice("ab xy-.+\n\t,'()[]$!/*=​") for _ in range(rng.randint(0, 5)))
            import re
            valid = bool(nm) and re.fullmatch(r"\w+", nm) is not None and not nm.endswith("\n")
            args, attrs = [nm], ({"name": nm} if valid else {})
    elif k == "Constant":
        v = rng.choice([rng.randint(-100, 100), rng.uniform(-10, 10), 10.0 ** rng.randint(-300, 300)])
        args, attrs = [v], {"value": v}
    elif k in S.UNARY:
        args = [hole()] if rng.random() < 0.6 else [rng.choice(FOREIGN_OPERANDS)]
        valid = args == ["E"]
    elif k in S.POWN:
        r = rng.random()
        if r < 0.4:
            n = rng.randint(1, 40)
            n = float(n) if rng.random() < 0.4 else n
            attrs = {"n": int(n)}
        elif r < 0.6:
            n = -rng.randint(0, 40)
            n = float(n) if rng.random() < 0.4 else n
            valid = False
        elif r < 0.8:
            n = rng.choice([1, -1]) * (rng.randint(0, 9) + rng.choice([0.5, 0.25, 1e-7, 0.999999, 1e-10, 1e-12, 2.0 ** -45, 1 - 2.0 ** -50]))
            if float(n).is_integer():
                n = n + 0.5
            valid = False
        else:
            n = rng.choice(N_INVALID)
            valid = False
        kwargs = {"n": n}
        args = [hole()]
        if rng.random() < 0.15:
            args = [rng.choice(FOREIGN_OPERANDS)]
            valid = False
    elif k in S.BASED:
        r = rng.random()
        if r < 0.5:
            b = rng.choice([rng.uniform(1e-3, 20), 10.0 ** rng.randint(-200, 200), rng.randint(2, 50)])
            if b == 1:
                b = 1.5
            attrs = {"base": b}
        elif r < 0.6:
            b = rng.choice([1, 1.0])
            valid = k == "Exponential"
            attrs = {"base": b} if valid else {}
        elif r < 0.85:
            b = -rng.choice([rng.uniform(0, 20), 0.0, 10.0 ** rng.randint(-200, 200), rng.randint(0, 50)])
            valid = False
        else:
            b = rng.choice(BASE_INVALID)
            valid = False
        kwargs = {"base": b}
        args = [hole()]
        if rng.random() < 0.15:
            args = [rng.choice(FOREIGN_OPERANDS)]
            valid = False
    elif k in S.BINARY:
        args = [hole(), hole()]
        if rng.random() < 0.4:
            args[rng.randrange(2)] = rng.choice(FOREIGN_OPERANDS)
            valid = False
    else:
        ar = rng.randint(0, 8)
        args = [hole() for _ in range(ar)]
        if ar and rng.random() < 0.4:
            args[rng.randrange(ar)] = rng.choice(FOREIGN_OPERANDS)
            valid = False
    _try(ctx, rng, k, args, kwargs, valid, attrs, "fuzz")


def _try(ctx, rng, k, args, kwargs, valid, attrs, src):
    import smoothmath.expression as E
    holes = []
    real_args = []
    for a in args:
        if a == "E" and isinstance(a, str):
            sp = G.rand_tree(rng, rng.randint(1, 5), G.Cfg(varnames=["x", "y"], max_n=3))
            holes.append(sp)
            real_args.append(S.build(sp))
        elif isinstance(a, list) and a and a[0] == "E":
            real_args.append([S.build(("Variable", "x")) for _ in a])
        elif isinstance(a, tuple) and a and a[0] == "E":
            real_args.append(tuple(S.build(("Variable", "x")) for _ in a))
        else:
            real_args.append(a)
    cls = getattr(E, k)
    out = M.call(lambda: cls(*real_args, **kwargs), numeric=False)
    ctx.evaluation()
    shown = f"{k}({', '.join(['<expr>' if (isinstance(a, str) and a == 'E') else repr(a)[:40] for a in args] + [f'{kk}={vv!r}' for kk, vv in kwargs.items()])})"
    ctx.hist("constructor", k)
    ctx.hist("expected", ("valid" if valid else "invalid") + "->" + ("constructed" if out.kind == "obj" else "raised"))
    if not valid or any(isinstance(v, float) for v in kwargs.values()):
        ctx.nontrivial(k, [repr(a) for a in args], {kk: repr(vv) for kk, vv in kwargs.items()})
    if not valid:
        if out.kind == "obj":
            ctx.violation("ill_formed_expression_accepted", f"{shown} was constructed ({repr(out.value)[:200]}) although the argument is outside the documented range")
        return
    if out.kind != "obj":
        ctx.violation("well_formed_expression_rejected", f"{shown} should be accepted but raised: {out.brief()}")
        return
    obj = out.value
    if type(obj) is not cls:
        ctx.violation("constructor_returned_other_type", f"{shown} returned a {type(obj).__name__}")
    for an, want in attrs.items():
        got = M.call(lambda: getattr(obj, an), numeric=False)
        if got.kind != "obj":
            ctx.violation("parameter_not_reported_back", f"{shown}.{an} raised {got.brief()}")
            continue
        g = got.value
        if an == "n":
            if type(g) is not int or g != want:
                ctx.violation("parameter_not_reported_back", f"{shown}.n is {g!r} (type {type(g).__name__}), expected the int {want}")
        elif an in ("base", "value"):
            if not (g == want and (type(g) is type(want) or isinstance(g, (int, float)))):
                ctx.violation("parameter_not_reported_back", f"{shown}.{an} is {g!r}, expected {want!r}")
            elif isinstance(want, float) and isinstance(g, float) and g.hex() != want.hex() and want == want:
                ctx.violation("parameter_not_reported_back", f"{shown}.{an} is {g!r}, expected {want!r} bit for bit")
        else:
            if g != want or type(g) is not type(want):
                ctx.violation("parameter_not_reported_back", f"{shown}.{an} is {g!r}, expected {want!r}")
    # every expression that can be built denotes a real function governed by the domain rules
    if holes or k in ("Add", "Multiply", "Constant", "Variable"):
        from .. import reflect as RF
        try:
            sp = RF.reflect(obj)
        except RF.ReflectError as e:
            ctx.violation("constructed_object_malformed", f"{shown}: {e}")
            return
        import smoothmath as sm
        names = sorted(S.variables(sp))
        p = {n: rng.choice([1.5, 0.5, 2.0, -1.5, 0.25]) for n in names}
        res = R.NORMAL.evaluate(sp, p)
        if res.status in ("def", "undef") and S.size(sp) < 40:
            legal = True
            try:
                sm.Point(**p)
            except Exception:
                legal = False
            if legal:
                o = M.call(obj.at, sm.Point(**p))
                ctx.count("constructed_objects_evaluated")
                if res.status == "def":
                    C.judge_number(ctx, o, res.root, f"{S.show(sp)[:300]} at {S.show_point(p)}", exact_required=False)
                elif o.kind != "DomainError":
                    ctx.violation("constructed_object_ignores_domain", f"{S.show(sp)[:300]} at {S.show_point(p)}: expected DomainError ({res.undef[0]}), got {o.brief()}")
    if not ctx.quiet and ctx.rng.random() < 0.002:
        ctx.sample({"call": shown, "valid": valid, "outcome": out.brief()[:100]})


def deciding(m):
    out = []
    e = m["hists"].get("expected", {})
    if not e.get("invalid->raised") or not e.get("valid->constructed"):
        out.append("valid or invalid arguments never exercised")
    if m["counts"].get("table_rows_enumerated", 0) == 0:
        out.append("the acceptance table was not enumerated")
    return out


def extra_coverage(m):
    return {"table_rows": m["counts"].get("table_rows_enumerated", 0), "table_enumerated_completely": m["counts"].get("table_rows_enumerated", 0) > 0}
