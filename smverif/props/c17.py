"""C17 - only the library's own errors escape, and results are real numbers."""
from __future__ import annotations

from .. import gen as G
from .. import hooks
from .. import monitors as M
from .. import refmodel as R
from .. import reflect as RF
from .. import spec as S
from . import common as C

MONITORS = ("math", "route")
LEVEL = "exploration"
PLAN = {"quick": {"cases": 2400, "shards": 16, "timeout": 900},
        "thorough": {"cases": 70000, "shards": 32, "timeout": 7200}}
RULE = ("the union of the other workloads (random, rule-shaped, boundary-seeking with all contexts, special: reverse-mode multipliers that are "
        "0 or negative, roots at negative values, bases < 1 and = 1, logarithms of values in (0,1), integer-typed coordinates) x points inside, "
        "outside and on the boundary of the domain, with and without missing coordinates x every API route (at(Point), at(number), 13-17 "
        "derivative routes early and late, as_expression() forward and reverse, evaluation of the returned expressions); the refuting event "
        "is any outcome other than {finite real int/float | expression} or {DomainError, CoordinateMissing}; cases whose exact intermediates "
        "(of the expression, of the true derivative, or of the returned derivative expression) leave [1e-60, 1e60] are skipped before the "
        "library is called. evaluation = one observed call; non-trivial = tree >= 3 nodes; distinct by (spec, variable, point)")
ASSUMPTIONS = ["scope filter = reference magnitudes of every node (definedness ignored) within [1e-60, 1e60], derivative magnitudes within 1e120"]


def special(rng):
    x, y = ("Variable", "x"), ("Variable", "y")
    r = rng.random()
    if r < 0.2:   # reverse-mode multipliers zero / negative
        inner = rng.choice([("NthRoot", x, 3), ("Logarithm", ("NthPower", x, 2), 0.5), ("Reciprocal", x), ("Power", ("NthPower", x, 2), y)])
        return ("Multiply", rng.choice([("Constant", 0), ("Constant", -2), ("Minus", y, y), ("Negation", y)]), inner, rng.choice([y, ("Constant", -1)]))
    if r < 0.4:   # roots at negative values
        n = rng.choice([3, 5, 7, 9, 2, 4])
        return G.embed(rng, ("NthRoot", rng.choice([x, ("Negation", ("NthPower", x, 2)), ("Minus", x, ("Constant", 3)), ("Multiply", x, y)]), n))
    if r < 0.6:   # bases < 1 and = 1
        b = rng.choice([0.5, 0.1, 0.25, 1, 1.0, 0.9, 1e-3])
        k = "Exponential" if b == 1 or rng.random() < 0.5 else "Logarithm"
        return G.embed(rng, (k, rng.choice([x, ("Multiply", x, y), ("Reciprocal", x), ("Logarithm", x, 0.5)]), b))
    if r < 0.8:   # logarithm of values in (0, 1)
        arg = rng.choice([("Reciprocal", ("Add", ("NthPower", x, 2), ("Constant", 2))), ("Exponential", ("Negation", ("NthPower", x, 2)), None), ("Divide", ("Constant", 1), ("Constant", 3))])
        return G.embed(rng, ("Logarithm", arg, rng.choice([None, 2, 0.5, 10])))
    return ("Power", rng.choice([x, ("NthPower", x, 2), ("Constant", 1), ("Constant", 0), ("Negation", x)]), rng.choice([y, ("Constant", 0), ("Constant", -1), ("Logarithm", y, None), x]))


def make_case(rng, tier):
    r = rng.random()
    pts = None
    if r < 0.3:
        t, fam, vals = C.mixed_tree(rng, tier)
        if S.size(t) > 24:
            t = G.rand_tree(rng, rng.randint(2, 24)); fam = "plain"
    elif r < 0.6:
        t, pts, info = G.boundary_case(rng); fam = "boundary:" + info["context"]
        pts = rng.sample(pts, 4)
    elif r < 0.85:
        t = special(rng); fam = "special"
    else:
        t = G.rule_case(rng); fam = "rule"
    names = sorted(S.variables(t))
    if pts is None:
        pts = [G.rand_point(rng, names, int_prob=0.5, extra=0.1) for _ in range(3)]
        if rng.random() < 0.3:
            pts += G.collision_twins(rng, names)
    # integer-typed, zero and missing coordinates
    if names:
        p = dict(pts[0]); p[names[0]] = rng.choice([0, 1, -1, 2, -3]); pts.append(p)
        p = dict(pts[0]); p.pop(rng.choice(names)); pts.append(p)
    var = rng.choice(names + ["q"]) if names else "q"
    return {"kind": "escape", "family": fam, "spec": S.to_json(t), "points": [S.point_to_json(p) for p in pts], "var": var, "mode": G.share(rng, t)}


def run_shard(ctx):
    C.run_corpus(ctx)
    n = C.budget(ctx, PLAN[ctx.tier]["cases"])
    for _ in range(n):
        ctx.run_case(make_case(ctx.rng, ctx.tier))


def check_case(ctx, case):
    import smoothmath as sm
    s = S.from_json(case["spec"])
    mode = case.get("mode", "tree")
    var = case["var"]
    names = sorted(S.variables(s))
    if not C.tree_in_scope(s, [S.point_from_json(pj) for pj in case["points"]]):
        ctx.count("inputs_out_of_scope")
        return
    ctx.count("cases")
    ctx.hist("family", case.get("family", "?").split(":")[0])
    pts = [S.point_from_json(pj) for pj in case["points"]]
    refs = [R.NORMAL.evaluate(s, p) for p in pts]
    what0 = S.show(s)[:300]
    # as_expression, both routes
    rspecs = {}
    for key, mk in (("fwd", lambda: sm.Partial(S.build(s, mode), var).as_expression()),
                    ("rev", lambda: sm.Differential(S.build(s, mode), compute_early=True).component(var).as_expression())):
        o = M.call(mk, numeric=False)
        ctx.evaluation()
        ctx.hist("outcomes", "as_expression->" + o.cls)
        if o.kind != "obj":
            if C.overflow_excusable(s, o):
                ctx.count("overflow_with_undefined_constant_part_unfiltered")
            elif o.kind not in ("DomainError", "CoordinateMissing"):
                ctx.violation("foreign_outcome", f"as_expression() [{key}] of d/d{var} {what0}: {o.brief()}")
            continue
        try:
            rspecs[key] = (RF.reflect(o.value), o.value)
        except RF.ReflectError as e:
            ctx.violation("not_an_expression", f"as_expression() [{key}] of d/d{var} {what0} returned {type(o.value).__name__}: {e}")
    route_names = M.routes_for(names, var, pts[0] if pts else {})
    routes = {rn: M.Route(rn, S.build(s, mode), var) for rn in route_names}
    for p, pj, res in zip(pts, case["points"], refs):
        if res.oos:
            ctx.count("points_out_of_scope")
            continue
        st = res.status
        what = f"{what0} at {S.show_point(p)}"
        calls = [("at(Point)", lambda: M.call(lambda: S.build(s, mode).at(sm.Point(**p))))]
        if len(names) == 1 and names[0] in p:
            calls.append(("at(number)", lambda: M.call(S.build(s, mode).at, p[names[0]])))
        d_in_scope = True
        if st == "def":
            _, d, da, _ = R.NORMAL.derivative(s, p, var, res=res)
            d_in_scope = not (R.too_big(d, R._DBIG_RAW) or R.too_big(da, R._DBIG_RAW))
        r_in_scope = {}
        for key, (rs, robj) in rspecs.items():
            rr = R.NORMAL.evaluate(rs, p)
            r_in_scope[key] = not rr.oos
            if not rr.oos:
                calls.append((f"returned_expression[{key}].at", (lambda robj=robj: M.call(lambda: robj.at(sm.Point(**p))))))
        for rn, ro in routes.items():
            if rn.endswith("_number") and var not in p:
                continue
            if not d_in_scope:
                continue
            if rn in M.SYMBOLIC_PATH:
                key = "fwd" if rn in M.FORWARD_SYMBOLIC else "rev"
                if not r_in_scope.get(key, False):
                    continue
                if rn.startswith("diff_early_at") and not all(r_in_scope.values()):
                    continue
            if rn.startswith("diff_early") and not all(r_in_scope.get(k, False) for k in r_in_scope):
                continue
            calls.append((rn, (lambda ro=ro: ro.query(dict(p)))))
        # Differential(e, compute_early=True).at evaluates every component: all must be in scope
        for label, fn in calls:
            o = fn()
            ctx.evaluation()
            ctx.hist("outcomes", f"{st}->{o.cls}")
            if o.kind in ("num", "DomainError", "CoordinateMissing"):
                continue
            if st == "indet" and o.kind == "exc" and o.exc_type == "OverflowError":
                # a guard argument that may or may not be zero: the magnitudes above it are unknown, so is the scope
                ctx.count("overflow_at_indeterminate_point_unfiltered")
                continue
            if label.startswith("diff_early") and o.kind == "exc" and o.exc_type == "OverflowError":
                # the early differential evaluates the partials of *all* variables; their scope is not filtered per variable
                ctx.count("early_differential_overflow_unfiltered")
                continue
            ctx.violation("foreign_outcome", f"{label} on {what} (d/d{var}): {o.brief()}")
        if S.size(s) >= 3:
            ctx.nontrivial(case["spec"], var, pj)
    if not ctx.quiet and ctx.rng.random() < 0.005:
        ctx.sample({"spec": what0, "variable": var, "points": [S.show_point(p) for p in pts], "routes": len(routes)})


def deciding(m):
    out = []
    o = m["hists"].get("outcomes", {})
    for need in ("def->num", "undef->DomainError", "missing->CoordinateMissing"):
        if not o.get(need):
            out.append(f"outcome class {need} never observed")
    return out
