"""C18 - results are reproducible across processes, hash seeds and argument spelling."""
from __future__ import annotations
import hashlib
import json
import os
import random

from .. import gen as G
from .. import hooks
from .. import monitors as M
from .. import refmodel as R
from .. import reflect as RF
from .. import spec as S
from . import common as C

MONITORS = ("math", "route")
LEVEL = "exploration"
HASHSEEDS_QUICK = [0, 1, 2, 3, 7, 11, 42, 12345]
PLAN = {"quick": {"cases": 260, "shards": 8, "timeout": 900},
        "thorough": {"cases": 2600, "shards": 32, "timeout": 7200}}
RULE = ("a battery of cases (trees over 3-8 variable names, 2 points each) generated identically in every process; every shard is a separate "
        "interpreter with its own PYTHONHASHSEED (quick: 8 seeds, thorough: 32) that permutes the order in which a point's coordinates are "
        "written and the order in which Variable objects are first created; each process records, per case and route (at(Point), 13+ "
        "derivative routes for two variables, LocatedDifferential components of every variable, both as_expression() routes, _normalize()), "
        "float.hex() of every number and reflected structure + repr of every expression; the offline comparator requires identical "
        "records across all processes. Reach is measured: distinct iteration orders of the internal variable-name sets observed across "
        "processes. evaluation = one record compared across processes; non-trivial = case with >= 3 variables; distinct by (case, route)")
ASSUMPTIONS = ["the battery itself is compared first (digest): a differing battery is a harness fault (inconclusive)",
               "cases whose reference evaluation is out of scope are not in the battery"]
NAMES = ["alpha", "beta", "gamma", "delta", "x", "y", "z", "w", "k1", "k2", "été", "_u"]


def worker_env(shard, nshards, tier, seed):
    if tier == "quick":
        hs = HASHSEEDS_QUICK[shard % len(HASHSEEDS_QUICK)]
    else:
        hs = [0, 1, 2, 3, 7, 11, 42, 12345][shard] if shard < 8 else 1000 + 7919 * shard
    return {"PYTHONHASHSEED": str(hs)}


def battery(seed, tier, n):
    rng = random.Random(f"{seed}/C18/battery/{tier}")
    cases = []
    tries = 0
    while len(cases) < n and tries < n * 20:
        tries += 1
        names = rng.sample(NAMES, rng.randint(3, 8))
        cfg = G.Cfg(varnames=names, p_var=0.8, max_n=4)
        r = rng.random()
        if r < 0.2:
            # repeated (structurally equal) terms / factors with inexact coefficients: any dedup-by-set or
            # group-by-hash shows up as a different summation order
            a, b, c = (("Variable", v) for v in names[:3])
            coef = lambda: ("Constant", rng.choice([0.05, 0.2, 0.3, 0.1, 0.7, 1 / 3, 0.15, 2.5e-3]))
            pool = [("Multiply", coef(), a, b), ("Multiply", coef(), a), ("Multiply", coef(), b, c), ("Multiply", coef(), a, c, b),
                    ("Sine", ("Multiply", a, b)), ("NthPower", ("Add", a, coef()), 2), ("Exponential", ("Multiply", coef(), a), None)]
            k = rng.choice(["Add", "Add", "Multiply"])
            terms = [rng.choice(pool) for _ in range(rng.randint(4, 7))]
            terms[rng.randrange(len(terms))] = terms[0]
            t = (k,) + tuple(terms)
            if rng.random() < 0.4:
                t = G.embed(rng, t, cfg)
        elif r < 0.4:
            # shapes whose rewrite rules partition / group their arguments (where set- or dict-ordering slips live):
            # several members sharing a parameter plus several that are alone in theirs
            name = rng.choice(["add_logs", "add_logs", "mul_nthpowers", "mul_nthroots", "mul_exponentials", "add_consts", "mul_consts",
                               "mul_negations", "mul_reciprocals", "add_negations", "add_flatten", "mul_flatten"])
            t = G.rule_shape(rng, name, G.Cfg(varnames=names, p_var=0.9, max_n=4))
            if rng.random() < 0.3:
                t = G.embed(rng, t, cfg)
        elif r < 0.55:
            t = G.friendly_tree(rng, G.rand_size(rng, 6, 26), cfg, p=0.8)
        elif r < 0.7:
            t = G.rule_case(rng, cfg)
        elif r < 0.85:
            t = ("Add",) + tuple(("Multiply", ("Variable", a), ("Logarithm", ("Add", ("NthPower", ("Variable", b), 2), ("Constant", 1)), None))
                                   for a, b in zip(names, names[1:] + names[:1]))
        elif r < 0.92:
            # flat products / sums of distinct BARE variables (shortcuts for "simple" shapes live here), plain or nested
            k = rng.choice(["Multiply", "Multiply", "Add"])
            t = (k,) + tuple(("Variable", a) for a in names)
            if rng.random() < 0.5:
                t = rng.choice([("Logarithm", ("Add", ("NthPower", t, 2), ("Constant", 1)), None), ("Sine", t), ("Add", t, ("Variable", names[0])),
                                ("Multiply", ("Constant", 0.3), t), ("Exponential", ("Multiply", ("Constant", 0.01), t), None)])
        else:
            t = ("Multiply",) + tuple(rng.choice([("Exponential", ("Variable", a), 2), ("NthPower", ("Variable", a), 2), ("NthRoot", ("Add", ("NthPower", ("Variable", a), 2), ("Constant", 1)), 2),
                                                   ("Logarithm", ("Add", ("NthPower", ("Variable", a), 2), ("Constant", 2)), None)]) for a in names)
        onevar = rng.random() < 0.12
        if onevar:
            # one-variable expression at points that carry extra coordinates: the Derivative routes apply
            t = G.friendly_tree(rng, G.rand_size(rng, 3, 16), G.Cfg(varnames=[names[0]], p_var=0.8, max_n=4), p=0.8)
        vs = sorted(S.variables(t))
        if (len(vs) < 2 and not (onevar and len(vs) == 1)) or not C.tree_in_scope(t):
            continue
        pnames = vs if not onevar else vs + names[1:4]
        pts = [{v: rng.choice([0.5, 1.5, 2.0, 0.25, 3.0, 1.25, 0.1, 1 / 3, 2, -1.5, -0.5, 1, 1.0, 0.7]) for v in pnames} for _ in range(2)]
        if any(R.NORMAL.evaluate(t, p).oos for p in pts):
            continue
        if rng.random() < 0.2 and S.size(t) <= 16:
            # the property has no range restriction: at extreme (float) coordinates the OUTCOME - which exception
            # is raised, or which huge number comes back - must not depend on the hash seed either.  Floats only:
            # float arithmetic cannot run away the way int ** int can.
            pts[1] = {v: rng.choice([1e150, 1e-150, 700.0, -700.0, 1e100, 1e-100, 300.0, 50.0, 1e-200, 2.0, 0.5]) for v in pnames}
        cases.append({"spec": S.to_json(t), "points": [S.point_to_json(p) for p in pts], "vars": rng.sample(vs, min(2, len(vs)))})
    return cases


def run_shard(ctx):
    n = int(PLAN[ctx.tier]["cases"] * C.scale())
    cases = C.corpus_cases("C18") + battery(ctx.seed, ctx.tier, n)
    dg = hashlib.blake2b(json.dumps(cases, sort_keys=True).encode(), digest_size=8).hexdigest()
    prng = random.Random(f"perm/{ctx.shard}")
    records = []
    orders = []
    texts = {}
    for i, case in enumerate(cases):
        recs, order = run_battery_case(ctx, case, prng)
        records.append([[lab, hashlib.blake2b(val.encode(), digest_size=8).hexdigest()] for lab, val in recs])
        orders.append(order)
        if i < 12:
            texts[i] = recs
        ctx.count("battery_cases")
    ctx.extra = {"battery_digest": dg, "records": records, "orders": orders, "texts": texts,
                 "hashseed": os.environ.get("PYTHONHASHSEED"), "n": len(cases)}


def check_case(ctx, case):
    """Replay: the case is run in this process; cross-process comparison happens in replay_main."""
    run_battery_case(ctx, case, random.Random(0))


def rec_of(o):
    if o.kind == "num":
        v = o.value
        return "num:" + (v.hex() if isinstance(v, float) else repr(v))
    if o.kind == "obj":
        try:
            sp = RF.reflect(o.value)
            return "expr:" + json.dumps(S.to_json(sp)) + "|" + repr(o.value)
        except RF.ReflectError:
            return "obj:" + type(o.value).__name__
    return o.cls


def run_battery_case(ctx, case, prng):
    import smoothmath as sm
    import smoothmath.expression as E
    s = S.from_json(case["spec"])
    names = sorted(S.variables(s))
    creation = list(names)
    prng.shuffle(creation)
    pre = [E.Variable(nm) for nm in creation]        # variables first created in a permuted order
    recs = []

    def mk():
        return S.build(s, "dag" if len(recs) % 2 else "tree")
    e0 = mk()
    order = ",".join(e0.__dict__.get("_variable_names", []))
    for pi, pj in enumerate(case["points"]):
        p = S.point_from_json(pj)
        items = list(p.items())
        prng.shuffle(items)
        pd = dict(items)                                  # coordinates written in a permuted order
        recs.append((f"at[{pi}]", rec_of(M.call(mk().at, sm.Point(**pd)))))
        ld = M.call(lambda: sm.LocatedDifferential(mk(), sm.Point(**pd)), numeric=False)
        ctx.evaluation(2)
        if ld.kind == "obj":
            for v in names:
                recs.append((f"located[{pi}].{v}", rec_of(M.call(ld.value.component, v))))
        else:
            recs.append((f"located[{pi}]", ld.cls))
        de = M.call(lambda: sm.Differential(mk(), compute_early=True).at(sm.Point(**pd)), numeric=False)
        if de.kind == "obj":
            for v in names:
                recs.append((f"diff_early_at[{pi}].{v}", rec_of(M.call(de.value.component, v))))
        else:
            recs.append((f"diff_early_at[{pi}]", de.cls))
        for var in case["vars"]:
            for rn in M.routes_for(names, var, pd):
                recs.append((f"{rn}[{pi}].{var}", rec_of(M.Route(rn, mk(), var).query(dict(pd)))))
                ctx.evaluation()
    for var in case["vars"] + ["absent_q"]:
        recs.append((f"as_expression_fwd.{var}", rec_of(M.call(lambda: sm.Partial(mk(), var).as_expression(), numeric=False))))
        recs.append((f"as_expression_rev.{var}", rec_of(M.call(lambda: sm.Differential(mk(), compute_early=True).component(var).as_expression(), numeric=False))))
        ctx.evaluation(2)
    recs.append(("normalize", rec_of(M.call(mk()._normalize, numeric=False))))
    recs.append(("repr", repr(e0)))
    recs.append(("hash_equal_rebuild", str(hash(e0) == hash(mk()) and e0 == mk())))
    return recs, order


def post_merge(m, reports, tier):
    ok = [r for r in reports if r.get("status") == "ok" and "extra" in r]
    out = []
    m["c18"] = {"processes": len(ok)}
    if len(ok) < 2:
        return out
    ref = ok[0]
    digs = {r["extra"]["battery_digest"] for r in ok}
    m["c18"]["battery_digests"] = len(digs)
    if len(digs) != 1:
        m["c18"]["battery_mismatch"] = True
        return out
    cases = battery(ref["seed"], tier, ref["extra"]["n"]) if False else None
    n = ref["extra"]["n"]
    compared = 0
    distinct_orders = 0
    cases_with_order_variation = 0
    mism = 0
    for i in range(n):
        ords = {r["extra"]["orders"][i] for r in ok}
        distinct_orders = max(distinct_orders, len(ords))
        if len(ords) > 1:
            cases_with_order_variation += 1
        base = ref["extra"]["records"][i]
        for r in ok[1:]:
            other = r["extra"]["records"][i]
            compared += len(base)
            if other != base:
                mism += 1
                if len(out) < 5:
                    first = next((k for k in range(min(len(base), len(other))) if base[k] != other[k]), None)
                    lab = base[first][0] if first is not None else f"record count {len(base)} vs {len(other)}"
                    ta = ref["extra"]["texts"].get(str(i)) or ref["extra"]["texts"].get(i)
                    tb = r["extra"]["texts"].get(str(i)) or r["extra"]["texts"].get(i)
                    detail = ""
                    if ta and tb and first is not None:
                        detail = f": {ta[first][1][:300]!r} vs {tb[first][1][:300]!r}"
                    out.append({"case": {"battery_index": i, "tier": tier, "seed": ref["seed"], "n": n,
                                         "hashseeds": [ref["extra"]["hashseed"], r["extra"]["hashseed"]], "shards": [ref["shard"], r["shard"]]},
                                "violations": [{"kind": "outcome_differs_between_processes",
                                                "message": f"battery case {i}, record {lab}: process with PYTHONHASHSEED={ref['extra']['hashseed']} (shard {ref['shard']}) and PYTHONHASHSEED={r['extra']['hashseed']} (shard {r['shard']}) disagree{detail}"}]})
                break
    m["c18"].update({"records_compared": compared, "max_distinct_set_orders_for_one_case": distinct_orders,
                     "cases_with_order_variation": cases_with_order_variation, "mismatching_cases": mism, "cases": n})
    # distinct / nontrivial accounting for the evidence file
    m["distinct"] = sum(len(c) for c in ref["extra"]["records"])
    m["evaluations"] = compared
    if n:
        smp = ref["extra"]["texts"].get("0") or ref["extra"]["texts"].get(0)
        if smp:
            m["samples"] = [{"battery_case": 0, "records": [[a, b[:120]] for a, b in smp[:8]], "n_records": len(smp)}]
    return out


def deciding(m):
    out = []
    c = m.get("c18", {})
    if c.get("processes", 0) < 2:
        out.append("fewer than two processes reported")
    if c.get("battery_mismatch"):
        out.append("the processes did not run the same battery (harness fault)")
    if c.get("records_compared", 0) == 0:
        out.append("no record compared")
    if c.get("cases_with_order_variation", 0) == 0:
        out.append("set iteration order never differed between the processes: the hash seeds had no observable effect")
    return out


def extra_coverage(m):
    return dict(m.get("c18", {}))


def replay_main(path, run_worker, work):
    """Re-runs the battery in the two processes named by the witness and compares the one case."""
    with open(path) as f:
        w = json.load(f)
    c = w["case"]
    reps = []
    for k, (hs, sh) in enumerate(zip(c["hashseeds"], c["shards"])):
        out = os.path.join(work, f"replay{k}.json")
        os.environ["SMVERIF_SCALE"] = str(c["n"] / PLAN[c["tier"]]["cases"])
        reps.append(run_worker("C18", c["tier"], c["seed"], sh, max(c["shards"]) + 1, out, 1800, {"PYTHONHASHSEED": str(hs)}))
    if any(r.get("status") != "ok" for r in reps):
        print("INCONCLUSIVE property=C18 reason=replay worker failed")
        return 2
    i = c["battery_index"]
    a, b = reps[0]["extra"]["records"][i], reps[1]["extra"]["records"][i]
    if a != b:
        first = next((k for k in range(min(len(a), len(b))) if a[k] != b[k]), None)
        print(f"  battery case {i}: record {a[first][0] if first is not None else '?'} differs between PYTHONHASHSEED={c['hashseeds'][0]} and {c['hashseeds'][1]}")
        print(f"VIOLATION property=C18 replay={path}")
        return 1
    print("replay: records identical; property held")
    return 0
