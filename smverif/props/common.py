"""Helpers shared by the property modules."""
from __future__ import annotations
import json
import math
import os
from fractions import Fraction

from .. import gen as G
from .. import monitors as M
from .. import refmodel as R
from .. import spec as S
from ..core import shard_share, VERIF


def scale():
    try:
        return float(os.environ.get("SMVERIF_SCALE", "1"))
    except ValueError:
        return 1.0


def budget(ctx, total):
    return shard_share(int(total * scale()), ctx.shard, ctx.nshards)


def corpus_cases(prop):
    path = os.path.join(VERIF, "corpus", prop.lower() + ".jsonl")
    out = []
    try:
        with open(path) as f:
            for line in f:
                line = line.strip()
                if line and not line.startswith("#"):
                    out.append(json.loads(line))
    except FileNotFoundError:
        pass
    return out


def run_corpus(ctx):
    """Pinned cases (regression witnesses, hand-picked boundaries) and known-finding witnesses run
    first, in shard 0 only."""
    if ctx.shard != 0:
        return
    for f in ctx.kf:
        w = (f.get("witnesses") or {}).get(ctx.prop)
        if w is not None:
            before = ctx.known_hits.get(f["id"], 0)
            ctx.run_case(w)
            ctx.count("kf_witness_run")
            if ctx.known_hits.get(f["id"], 0) > before:
                ctx.count("kf_witness_reproduced")
    for case in corpus_cases(ctx.prop):
        ctx.run_case(case)
        ctx.count("corpus_cases")


def mixed_tree(rng, tier, kinds=("friendly", "rule", "poly", "rational", "special", "plain", "shared"), weights=(34, 18, 8, 8, 12, 10, 10)):
    """The general-purpose evaluation workload: returns (spec, family, point_values)."""
    fam = rng.choices(kinds, weights[:len(kinds)])[0]
    hi = 40 if tier == "quick" else 80
    vals = G.POINT_VALUES
    wide = G.Cfg(max_n=12, max_arity=8, float_n=0.15) if (tier != "quick" or rng.random() < 0.15) else G.DEFAULT
    if fam == "friendly":
        t = G.friendly_tree(rng, G.rand_size(rng, 2, hi), wide)
    elif fam == "rule":
        t = G.rule_case(rng)
    elif fam == "poly":
        t = G.rand_tree(rng, G.rand_size(rng, 2, 25), G.POLY)
        vals = G.DYADIC_VALUES
    elif fam == "rational":
        t = G.rand_tree(rng, G.rand_size(rng, 2, 25), G.RATIONAL)
        vals = G.DYADIC_VALUES
    elif fam == "special":
        t = special_tree(rng)
    elif fam == "shared":
        # the same sub-expression OBJECT in several places (built as a DAG by the caller): a parameterised node is
        # copied over other positions so that per-object state (memo, flags) is hit twice within one traversal
        inner = G.friendly_tree(rng, G.rand_size(rng, 3, 14), wide)
        shared_part = rng.choice([("Logarithm", G.positive_of(rng, G.hole(rng)), rng.choice([2, 10, 0.5, 3])),
                                  ("Exponential", G.hole(rng), rng.choice([2, 0.5, 10, None])),
                                  ("NthRoot", G.positive_of(rng, G.hole(rng)), rng.choice([2, 3, 4, 5])),
                                  ("NthPower", G.hole(rng), rng.choice([2, 3, 4])), ("Sine", G.hole(rng)), ("Reciprocal", G.positive_of(rng, G.hole(rng))),
                                  ("Power", G.positive_of(rng, G.hole(rng)), G.hole(rng)), ("Divide", G.hole(rng), G.positive_of(rng, G.hole(rng)))])
        t = rng.choice([("Add", ("Multiply", shared_part, shared_part), ("Exponential", shared_part, 2), inner),
                        ("Multiply", shared_part, ("Add", shared_part, inner)), ("Minus", ("NthPower", shared_part, 2), shared_part),
                        ("Divide", inner, ("Add", ("NthPower", shared_part, 2), ("Constant", 1), ("Cosine", shared_part)))])
        t = G.with_sharing(rng, t, 1)
    else:
        t = G.rand_tree(rng, G.rand_size(rng, 1, hi), wide)
    return t, fam, vals


def special_tree(rng):
    """What the repository's tests never touch: n >= 4 roots/powers, odd roots of negative
    sub-results deep inside, bases != e/2 including < 1, 0-/1-/4-/5-ary sums and products."""
    r = rng.random()
    x = ("Variable", rng.choice(["x", "y"]))
    if r < 0.25:
        n = rng.choice([4, 5, 6, 7, 8, 9, 11, 12, 5.0])
        inner = G.rand_tree(rng, rng.randint(1, 5), G.POLY)
        t = ("NthRoot", inner, n) if rng.random() < 0.6 else ("NthPower", inner, n)
        return G.embed(rng, t)
    if r < 0.45:
        n = rng.choice([3, 5, 7, 9])
        neg = ("Negation", ("Add", ("NthPower", x, 2), ("Constant", rng.choice([1, 0.5, 3]))))
        t = ("NthRoot", neg, n)
        for _ in range(rng.randint(0, 3)):
            t = G.embed(rng, t)
        return t
    if r < 0.65:
        b = rng.choice([0.5, 0.25, 0.1, 7.25, 3, 1.5, 10, 1, 0.9])
        k = rng.choice(["Exponential", "Logarithm"])
        if k == "Logarithm" and b == 1:
            b = 0.3
        arg = G.rand_tree(rng, rng.randint(1, 4), G.POLY)
        if k == "Logarithm":
            arg = G.positive_of(rng, arg)
        return G.embed(rng, (k, arg, b))
    if r < 0.85:
        k = rng.choice(["Add", "Multiply"])
        ar = rng.choice([0, 1, 4, 5, 6])
        kids = tuple(G.rand_tree(rng, rng.randint(1, 4)) for _ in range(ar))
        t = (k,) + kids
        return G.embed(rng, t)
    return ("Power", G.positive_of(rng, G.hole(rng)), G.rand_tree(rng, rng.randint(1, 4)))


def judge_number(ctx, out, val, what, exact_required=True):
    """Judges a numeric outcome against a reference Val (enclosure + exactness).  Returns True if ok."""
    if out.kind != "num":
        ctx.violation("no_value_on_domain", f"{what}: reference says defined, library gave {out.brief()}")
        return False
    v = out.value
    if val.fx and exact_required:
        ctx.count("judged_exact")
        if Fraction(v) != val.ex:
            ctx.violation("inexact_on_exact_fragment",
                          f"{what}: every intermediate is exactly representable, expected exactly {float(val.ex)!r}, got {v!r}")
            return False
        return True
    ctx.count("judged_enclosure")
    if not R.contains(val.iv, v):
        lo, hi = R.lo_float(val.iv), R.hi_float(val.iv)
        ctx.violation("outside_enclosure", f"{what}: got {v!r}, rounding-aware enclosure of the real value is [{lo!r}, {hi!r}]")
        return False
    track_margin(ctx, "value_enclosure", v, val.iv, what)
    return True


def track_margin(ctx, name, v, ivl, where=None):
    """observed/allowed: distance of v from the midpoint relative to the half-width (exact, in mp)."""
    try:
        half = ivl.delta / 2
        if not R.is_zero(half) and not R.is_zero(ivl.a) and not R.is_zero(ivl.b):
            ratio = abs(R.ivnum(v) - ivl.mid) / half
            ctx.margin(name, R.hi_float(ratio), where)
    except Exception:
        pass


def judge_derivative(ctx, out, d, dabs, dex, what, reverse=False, exact=False):
    if out.kind != "num":
        ctx.violation("no_derivative_on_domain", f"{what}: expression is defined here, library gave {out.brief()}")
        return False
    v = out.value
    if exact and dex is not None:
        ctx.count("judged_exact")
        if Fraction(v) != dex:
            ctx.violation("inexact_derivative_on_exact_fragment", f"{what}: expected exactly {float(dex)!r}, got {v!r}")
            return False
        return True
    enc = R.slack_interval(d, dabs, 16)
    ctx.count("judged_enclosure")
    if not R.contains(enc, v):
        ctx.violation("derivative_outside_enclosure",
                      f"{what}: got {v!r}, enclosure of the true partial is [{R.lo_float(enc)!r}, {R.hi_float(enc)!r}]")
        return False
    track_margin(ctx, "derivative_enclosure", v, enc, what)
    return True


def decisive_width(ivl, tol=1e-6):
    """An enclosure is usable as a verdict only when it is narrow (or an exact zero)."""
    if R.is_zero(ivl):
        return True
    w = R.rel_width(ivl)
    return w < tol


def d_decisive(d, dabs, tol=1e-6):
    """Derivative enclosure narrow relative to the sum of absolute path contributions."""
    if R.is_zero(d):
        return True
    try:
        width = R.hi_float(d.delta)
        scale_ = max(R.hi_float(abs(dabs)), R.hi_float(abs(d)))
        return scale_ > 0 and width / scale_ < tol
    except Exception:
        return False


_SELFCHECK = {"n": 0, "bad": 0}


def ad_selfcheck(ctx, s, p, var, d_exact):
    """Oracle self-check: AD rules against central differences of the reference evaluator."""
    x0 = p.get(var)
    if x0 is None:
        return
    nd = R.numdiff(s, p, var)
    if nd is None:
        ctx.count("oracle_selfcheck_skipped")
        return
    ctx.count("oracle_selfcheck")
    tol = (abs(d_exact) + 1) * R.iv.mpf(10) ** -9

    def agrees(nd_):
        # the finite difference must fall inside the AD enclosure (which has width when the default
        # base e is involved: hull of the float and the true e), up to the truncation tolerance
        lo = d_exact.a - tol.b
        hi = d_exact.b + tol.b
        return (lo <= nd_.mid) and (nd_.mid <= hi)
    if not agrees(nd):
        # steep second derivative can make the difference quotient itself inaccurate: retry smaller h
        nd2 = R.numdiff(s, p, var, h_exp=50)
        if nd2 is not None and agrees(nd2):
            return
        ctx.count("oracle_selfcheck_failed")
        ctx.hist("oracle_selfcheck_failures", S.show(s)[:120] + " @ " + S.show_point(p) + " d/d" + var)
        ctx.hist("oracle_selfcheck_failure_cases", json.dumps({"spec": S.to_json(s), "point": S.point_to_json(p), "var": var}))


def tree_in_scope(s, pts=None):
    """Scope filter for simplification / as_expression(): the tree has no out-of-scope variable-free
    part and evaluates within [1e-60, 1e60] (definedness ignored) at one point at least - a sub-tree
    that simplification turns into a constant then has an in-scope value as well."""
    if not varfree_in_scope(s):
        return False
    names = sorted(S.variables(s))
    cand = list(pts or [])
    cand += [{v: 1.5 for v in names}, {v: -0.5 for v in names}, {v: 2 for v in names}]
    for p in cand:
        if all(v in p for v in names) and not R.NORMAL.evaluate(s, p).oos:
            return True
    return False


def varfree_in_scope(s):
    """Scope filter to run BEFORE the library sees a tree: every variable-free sub-tree (which the
    simplifier will fold by evaluating it) must stay within [1e-60, 1e60], ignoring definedness."""
    def walk(t):
        """returns True if t has variables"""
        if t[0] == "Variable":
            return True
        if t[0] == "Constant":
            v = t[1]
            if isinstance(v, (int, float)) and not isinstance(v, bool):
                if v != 0 and not (1e-60 <= abs(v) <= 1e60):
                    raise OverflowError
            return False
        flags = [walk(c) for c in S.children(t)]
        if any(flags):
            for c, f in zip(S.children(t), flags):
                if not f and c[0] != "Constant":
                    if R.NORMAL.evaluate(c, {}).oos:
                        raise OverflowError
            return True
        return False
    try:
        hasvars = walk(s)
        if not hasvars and s[0] != "Constant":
            if R.NORMAL.evaluate(s, {}).oos:
                return False
        return True
    except OverflowError:
        return False


def build_with_parts(s, mode):
    """(root object, list of the composite sub-expression objects a caller would also hold references to)."""
    b = S.Builder(mode)
    root = b.build(s)
    parts = [o for o in b.nodes if o is not root and type(o).__name__ not in ("Variable", "Constant")]
    return root, parts


def has_undefined_constant_part(s):
    """Does the tree contain a variable-free sub-tree that the reference cannot evaluate (undefined or indeterminate)?
    What such a part is worth after the simplifier has enlarged its domain is known only to the simplifier, so the
    magnitudes - hence the scope - of the folded tree cannot be decided from outside."""
    def walk(t):
        if t[0] == "Variable":
            return True, False
        if t[0] == "Constant":
            return False, False
        res = [walk(c) for c in S.children(t)]
        has_var = any(r[0] for r in res)
        bad = any(r[1] for r in res)
        if not has_var and not bad:
            st = R.NORMAL.evaluate(t, {}).status
            if st in ("undef", "indet"):
                bad = True
        return has_var, bad
    return walk(s)[1]


def overflow_excusable(s, outcome):
    return outcome.kind == "exc" and outcome.exc_type == "OverflowError" and has_undefined_constant_part(s)
