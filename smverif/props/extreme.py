"""Flat n-ary sums / products of leaves at huge-but-finite coordinates.

All node values are exactly computable with Fractions here, so the verdicts need no enclosure model: the
library must return the (representable) exact value to 1e-12 relative.  Used by C01/C02 (values) and by
C04/C06 (gradients, only at points where the library's own left-to-right partial products stay in range).
"""
from __future__ import annotations
from fractions import Fraction

from .. import spec as S

LO = Fraction(1, 10 ** 290)
HI = Fraction(10 ** 290)
MAGS = [1e100, 1e150, 1e200, 1e250, 1e300, 1e-100, 1e-150, 1e-200, 1e-250, 1e-300, 2.5e180, 4e-170, 1.0, 3.0, 1e20]


def in_range(fr):
    return fr == 0 or LO <= abs(fr) <= HI


def gen_flat(rng, kind=None, names=("x", "y", "z", "w", "v")):
    """(spec, point): a flat Add or Multiply of 2-5 distinct variables (and sometimes a constant) whose exact
    value is representable although partial sums / products in some order are not."""
    for _ in range(200):
        k = kind or rng.choice(["Multiply", "Multiply", "Add"])
        n = rng.randint(2, 5)
        vs = list(names[:n])
        p = {}
        for v in vs:
            m = rng.choice(MAGS)
            p[v] = m if rng.random() < 0.7 else -m
        leaves = [("Variable", v) for v in vs]
        if rng.random() < 0.25:
            leaves.insert(rng.randint(0, n), ("Constant", rng.choice([2, -1, 0.5, 1e100, 1e-120])))
        if k == "Add" and rng.random() < 0.7 and n >= 3:
            # two huge terms that cancel and a third that survives
            big = rng.choice([1e308, 8e307, 1.5e308])
            p[vs[0]], p[vs[1]] = big, big if rng.random() < 0.5 else big / 2
            p[vs[2]] = -p[vs[1]]
        t = (k,) + tuple(leaves)
        val = exact_value(t, p)
        if val != 0 and in_range(val):
            return t, p
    return None, None


def leaf_value(leaf, p):
    return Fraction(leaf[1]) if leaf[0] == "Constant" else Fraction(p[leaf[1]])


def exact_value(t, p):
    vals = [leaf_value(c, p) for c in t[1:]]
    if t[0] == "Add":
        return sum(vals, Fraction(0))
    out = Fraction(1)
    for v in vals:
        out *= v
    return out


def exact_partial(t, p, var):
    """d t / d var for a flat product or sum of leaves."""
    if t[0] == "Add":
        return Fraction(sum(1 for c in t[1:] if c == ("Variable", var)))
    tot = Fraction(0)
    kids = t[1:]
    for i, c in enumerate(kids):
        if c == ("Variable", var):
            term = Fraction(1)
            for j, o in enumerate(kids):
                if j != i:
                    term *= leaf_value(o, p)
            tot += term
    return tot


def prefix_safe_partial(t, p, var):
    """True when every left-to-right partial product of (1, the other factors in order) stays in range,
    i.e. the straightforward product rule cannot over- or underflow for this component."""
    kids = t[1:]
    for i, c in enumerate(kids):
        if c == ("Variable", var):
            acc = Fraction(1)
            for j, o in enumerate(kids):
                if j != i:
                    acc *= leaf_value(o, p)
                    if not in_range(acc) or acc == 0:
                        return False
    return True


def close(lib_value, exact, rel=Fraction(1, 10 ** 12)):
    try:
        lv = Fraction(lib_value)
    except (ValueError, OverflowError, TypeError):
        return False
    return abs(lv - exact) <= rel * abs(exact)


DBL_MAX = Fraction(2 ** 1024 - 2 ** 970)
DBL_TRUE_MIN = Fraction(1, 2 ** 1074)


def gen_product_for_gradient(rng, names=("x", "y", "z", "w", "v")):
    """(spec, point, vars): a flat product of 2-5 distinct variables at huge / tiny coordinates such that the node value
    is inside the double range (possibly subnormal) and the listed variables' exact partials are in the normal range."""
    mags = MAGS + [1e-160, 1e-155, 1e155, 1e-310 ** 0.5, 3e-162, 1e-108]
    for _ in range(300):
        n = rng.randint(2, 5)
        vs = list(names[:n])
        p = {v: (rng.choice(mags) * (1 if rng.random() < 0.7 else -1)) for v in vs}
        t = ("Multiply",) + tuple(("Variable", v) for v in vs)
        val = exact_value(t, p)
        if val == 0 or not (DBL_TRUE_MIN <= abs(val) <= DBL_MAX):
            continue
        good = [v for v in vs if in_range(exact_partial(t, p, v)) and exact_partial(t, p, v) != 0]
        if good:
            return t, p, good
    return None, None, None
