"""Library object -> spec-tree, by walking the live object graph (never through repr)."""
from __future__ import annotations
from . import spec as S


class ReflectError(Exception):
    pass


_CLASSES = None


def _classes():
    global _CLASSES
    if _CLASSES is None:
        import smoothmath.expression as E
        _CLASSES = {getattr(E, name): name for name in S.ALL}
    return _CLASSES


def reflect(obj, _memo=None, _depth=0):
    """Spec of a library expression.  Sharing is kept implicitly (equal sub-specs); `_memo`
    makes the walk linear on DAGs."""
    if _memo is None:
        _memo = {}
    hit = _memo.get(id(obj))
    if hit is not None:
        return hit
    name = _classes().get(obj.__class__)
    if name is None:
        raise ReflectError(f"not a smoothmath expression: {type(obj).__name__}")
    d = obj.__dict__
    try:
        if name == "Constant":
            out = (name, d["value"])
        elif name == "Variable":
            out = (name, d["name"])
        elif name in S.UNARY:
            out = (name, reflect(d["_inner"], _memo))
        elif name in S.POWN:
            out = (name, reflect(d["_inner"], _memo), obj.n)
        elif name in S.BASED:
            out = (name, reflect(d["_inner"], _memo), obj.base)
        elif name in S.BINARY:
            out = (name, reflect(d["_left"], _memo), reflect(d["_right"], _memo))
        else:
            inners = d["_inners"]
            if not isinstance(inners, (list, tuple)):
                raise ReflectError(f"{name}._inners is a {type(inners).__name__}")
            out = (name,) + tuple(reflect(c, _memo) for c in inners)
    except KeyError as e:
        raise ReflectError(f"{name} object lacks attribute {e}") from None
    _memo[id(obj)] = out
    return out


def nodes(obj, _seen=None):
    """All distinct node objects reachable from obj (each once)."""
    if _seen is None:
        _seen = {}
    if id(obj) in _seen:
        return _seen
    _seen[id(obj)] = obj
    d = obj.__dict__
    for key in ("_inner", "_left", "_right"):
        c = d.get(key)
        if c is not None:
            nodes(c, _seen)
    for c in d.get("_inners", ()) or ():
        nodes(c, _seen)
    return _seen


def true_variables(obj, _memo=None):
    """Variable names reachable below obj, from the leaves (not from _variable_names).
    The memo keeps a reference to every object it has seen, so ids cannot be recycled under it."""
    if _memo is None:
        _memo = {}
    hit = _memo.get(id(obj))
    if hit is not None and hit[0] is obj:
        return hit[1]
    name = _classes().get(obj.__class__)
    d = obj.__dict__
    if name == "Variable":
        out = frozenset((d.get("name"),))
    else:
        acc = set()
        for key in ("_inner", "_left", "_right"):
            c = d.get(key)
            if c is not None:
                acc |= true_variables(c, _memo)
        for c in d.get("_inners", ()) or ():
            acc |= true_variables(c, _memo)
        out = frozenset(acc)
    _memo[id(obj)] = (obj, out)
    return out


def point_dict(p):
    return dict(p.__dict__["_coordinates"])
