"""Reference semantics of smoothmath expressions, written independently of the library.

Three strengths (DESIGN.md section 2.4):
  * exact rationals (fractions.Fraction) with a float-exact flag,
  * rigorous enclosures in mpmath interval arithmetic, every primitive result inflated by K ulps,
  * reference forward-mode AD over the same enclosures (plus an exact rational derivative).

Nothing here imports smoothmath.
"""
from __future__ import annotations
import math
from fractions import Fraction

from . import deps
deps.add_to_path()
import mpmath  # noqa: E402
from mpmath import iv  # noqa: E402
from mpmath.libmp import from_float, from_int, mpf_le, mpf_lt, to_float, fzero, to_rational  # noqa: E402

from . import spec as S  # noqa: E402

PREC = 200
iv.prec = PREC
mpmath.mp.prec = PREC

U = Fraction(1, 2 ** 53)
KB = 8        # + - * / sqrt
KT = 16       # pow, exp, log, roots, sin, cos
BIG = 10 ** 60
TINY = Fraction(1, 10 ** 60)
DBIG = 10 ** 120

_IV0 = iv.mpf(0)
_IV1 = iv.mpf(1)
_U_IV = iv.mpf(2) ** -53
_E_TRUE = iv.e
_E_FLOAT = iv.mpf(math.e)
_E_HULL = iv.mpf([min(_E_TRUE.a, _E_FLOAT.a), max(_E_TRUE.b, _E_FLOAT.b)])
_BIG_RAW = from_int(BIG)
_DBIG_RAW = from_int(DBIG)


# ---- interval helpers ----------------------------------------------------------------------------

def ivnum(v):
    """Exact point interval of a Python int/float/Fraction."""
    if isinstance(v, Fraction):
        if v.denominator == 1:
            return iv.mpf(v.numerator)
        return iv.mpf(v.numerator) / iv.mpf(v.denominator)
    return iv.mpf(v)


def raw_lo(x):
    return x._mpi_[0]


def raw_hi(x):
    return x._mpi_[1]


def is_point(x):
    a, b = x._mpi_
    return a == b


def is_zero(x):
    a, b = x._mpi_
    return a == fzero and b == fzero


def contains_zero(x):
    a, b = x._mpi_
    return mpf_le(a, fzero) and mpf_le(fzero, b)


def all_pos(x):
    return mpf_lt(fzero, x._mpi_[0])


def all_neg(x):
    return mpf_lt(x._mpi_[1], fzero)


def num_raw(v):
    if isinstance(v, bool):
        return from_int(int(v))
    if isinstance(v, int):
        return from_int(v)
    return from_float(v)


def contains(x, v):
    """Is the Python number v inside the interval x?"""
    r = num_raw(v)
    a, b = x._mpi_
    return mpf_le(a, r) and mpf_le(r, b)


def intersects(x, y):
    a, b = x._mpi_
    c, d = y._mpi_
    return mpf_le(a, d) and mpf_le(c, b)


def mag_raw(x):
    a, b = x._mpi_
    na = (0,) + tuple(a[1:]) if a[0] else a
    nb = (0,) + tuple(b[1:]) if b[0] else b
    return nb if mpf_le(na, nb) else na


def too_big(x, bound_raw=_BIG_RAW):
    return mpf_lt(bound_raw, mag_raw(x))


def mid_float(x):
    try:
        return to_float(x.mid._mpi_[0])
    except OverflowError:
        return math.inf


def lo_float(x):
    return to_float(x._mpi_[0])


def hi_float(x):
    return to_float(x._mpi_[1])


def rel_width(x):
    """Width of x relative to its smallest magnitude (float; 0 for points, inf if 0 is inside)."""
    a, b = x._mpi_
    if a == b:
        return 0.0
    if contains_zero(x):
        return math.inf
    try:
        return hi_float(x.delta / abs(x).a)
    except (ZeroDivisionError, OverflowError):
        return math.inf


def sym(x):
    """Shadow magnitude of a node without value: spans m and 1/m, because simplification may enlarge the domain and
    later rules may invert what they find (Reciprocal(Power(-0.5, 10)) becomes 1024 once the Power is an NthPower)."""
    try:
        m = abs(x)
        hi = m.b
        if is_zero(hi):
            return _IV1
        lo = 1 / hi
        a = lo.a if lo.a < m.a else m.a
        return iv.mpf([a, hi.b if hi.b > lo.b else lo.b])
    except Exception:
        return _IV1


def infl(x, k, scale):
    """Relative inflation by k*scale ulps (u = 2^-53)."""
    if scale == 0 or k == 0:
        return x
    if is_zero(x):
        return x
    e = _U_IV * (k * scale)
    return x * iv.mpf([1 - e.b, 1 + e.b])


def infl_abs(x, eps_iv):
    return x + iv.mpf([-eps_iv.b, eps_iv.b])


def ipow(x, n):
    """x^n for an interval x and an integer n >= 1 (large n through exp/log so that it cannot hang)."""
    if n <= 64:
        return x ** n
    m = abs(x)
    hi = m.b
    top = iv.exp(n * iv.log(hi)) if not is_zero(hi) else _IV0
    if contains_zero(x):
        lo = -top if (n % 2 == 1 and mpf_lt(x._mpi_[0], fzero)) else _IV0
        return iv.mpf([lo.a, top.b])
    bot = iv.exp(n * iv.log(m.a))
    r = iv.mpf([bot.a, top.b])
    if all_neg(x) and n % 2 == 1:
        return -r
    return r


def representable(fr: Fraction) -> bool:
    try:
        return Fraction(float(fr)) == fr
    except OverflowError:
        return False


def _odd_bits(n: int) -> int:
    n = abs(n)
    if n == 0:
        return 0
    while n % 2 == 0:
        n //= 2
    return n.bit_length()


def _den_pow2(fr: Fraction):
    d = fr.denominator
    if d & (d - 1):
        return None
    return d.bit_length() - 1


def _frac_ok(fr: Fraction) -> bool:
    return fr.numerator.bit_length() <= 2048 and fr.denominator.bit_length() <= 2048


def iroot(a: int, n: int):
    """Exact integer n-th root of a >= 0 or None."""
    if a < 0:
        return None
    if a in (0, 1):
        return a
    r = int(round(a ** (1.0 / n))) if a < 2 ** 1000 else 1 << (a.bit_length() // n)
    # Newton refine
    for _ in range(200):
        if r <= 0:
            r = 1
        nr = ((n - 1) * r + a // (r ** (n - 1))) // n
        if abs(nr - r) <= 1:
            break
        r = nr
    for c in (r - 2, r - 1, r, r + 1, r + 2, nr - 1, nr, nr + 1):
        if c >= 0 and c ** n == a:
            return c
    return None


def frac_root(fr: Fraction, n: int):
    """Exact n-th root of a positive Fraction, or None."""
    if fr <= 0:
        return None
    a = iroot(fr.numerator, n)
    b = iroot(fr.denominator, n)
    if a is None or b is None:
        return None
    return Fraction(a, b)


# ---- values ----------------------------------------------------------------------------------------

class Val:
    """Reference value of one node at one point."""
    __slots__ = ("st", "iv", "ex", "fx", "shadow", "why", "d", "dabs", "dex")

    def __init__(self, st, ivv, ex=None, fx=False, shadow=False, why=None):
        self.st = st          # 'def' | 'undef' | 'indet' | 'missing'
        self.iv = ivv         # enclosure (a shadow magnitude when st != 'def')
        self.ex = ex          # exact Fraction or None
        self.fx = fx          # float-exact: IEEE evaluation is exact, result must equal ex bit for bit
        self.shadow = shadow
        self.why = why
        self.d = None
        self.dabs = None
        self.dex = None


class Result:
    """Outcome of reference evaluation of a whole tree."""

    def __init__(self):
        self.root = None
        self.missing = set()
        self.undef = []       # decisive reasons
        self.indet = []       # indeterminate guards
        self.oos = False
        self.nodes = 0

    @property
    def status(self):
        if self.oos:
            return "oos"
        if self.missing:
            return "missing"
        if self.undef:
            return "undef"
        if self.indet:
            return "indet"
        return "def"


class Model:
    """Interval/exact evaluator.  scale = multiplier on the per-operation inflation (1 = normal
    model that contains every conforming float computation; 0 = pure enclosure of the exact real
    value).  widen = relative widening (in u) applied to inexact-looking Constant leaves."""

    def __init__(self, scale=1, widen=0, point_e=False, widen_integral=False):
        self.scale = scale
        self.widen = widen
        self.point_e = point_e
        self.widen_integral = widen_integral

    def _ln_e(self):
        """ln of the default base: the hull of the float math.e and the true e (a conforming
        implementation may use either), or exactly 1 for the self-check model."""
        if self.point_e:
            return _IV1
        return iv.log(_E_HULL)

    # -- evaluation -----------------------------------------------------------------------------
    def evaluate(self, s, point, memo=None):
        res = Result()
        if memo is None:
            memo = {}
        res.root = self._ev(s, point, res, memo)
        res.memo = memo
        return res

    def _shadow(self, res, why, st="undef", ivv=None):
        return Val(st, ivv if ivv is not None else _IV1, None, False, True, why)

    def _ev(self, s, point, res, memo):
        key = id(s)
        hit = memo.get(key)
        if hit is not None and hit[0] is s:
            return hit[1]
        v = self._ev1(s, point, res, memo)
        res.nodes += 1
        if v.iv is not None and too_big(v.iv):
            res.oos = True
            v = Val(v.st, _IV1, None, False, True, "magnitude above 1e60")
        elif v.st == "def" and v.ex is not None and v.ex != 0 and abs(v.ex) < TINY:
            res.oos = True
        elif v.st == "def" and not contains_zero(v.iv) and too_big(1 / v.iv):
            res.oos = True
        memo[key] = (s, v)
        return v

    def _kids(self, s, point, res, memo):
        return [self._ev(c, point, res, memo) for c in S.children(s)]

    def _ev1(self, s, point, res, memo):
        k = s[0]
        sc = self.scale
        if k == "Constant":
            v = s[1]
            if isinstance(v, bool):
                v = int(v)
            x = ivnum(v)
            if self.widen and isinstance(v, float) and (self.widen_integral or not (v.is_integer() and abs(v) < 2 ** 40)) and v != 0:
                x = infl(x, self.widen, 1)
                return Val("def", x, None, False)
            return Val("def", x, Fraction(v), True)
        if k == "Variable":
            if point is None or s[1] not in point:
                res.missing.add(s[1])
                return Val("missing", _IV1, None, False, True, f"no coordinate {s[1]}")
            v = point[s[1]]
            if isinstance(v, bool):
                v = int(v)
            return Val("def", ivnum(v), Fraction(v), True)
        kids = self._kids(s, point, res, memo)
        bad = [c for c in kids if c.st != "def"]
        if bad:
            # no value here; carry a shadow magnitude so that scope checks above still see something
            st = "missing" if any(c.st == "missing" for c in bad) else (
                "undef" if any(c.st == "undef" for c in bad) else "indet")
            try:
                sh = sym(self._shadow_value(s, kids))
            except Exception:
                sh = _IV1
            return Val(st, sh, None, False, True, "child without value")
        return self._apply(s, kids, res)

    # shadow magnitudes (definedness ignored) keep the scope filter meaningful above undefined nodes
    def _shadow_value(self, s, kids):
        k = s[0]
        xs = [abs(c.iv) + 0 for c in kids]
        if k == "Add" or k == "Minus":
            t = _IV0
            for x in xs:
                t = t + x
            return t
        if k == "Multiply":
            t = _IV1
            for x in xs:
                t = t * x
            return t
        if k == "Negation":
            return xs[0]
        if k in ("Divide",):
            return xs[0] * sym(xs[1])
        if k == "Reciprocal":
            return sym(xs[0])
        if k == "NthPower":
            return ipow(xs[0], S.int_n(s[2]))
        if k == "NthRoot":
            return sym(xs[0])
        if k == "Exponential":
            b = S.base_value(s[2])
            return iv.exp(xs[0].b * abs(iv.log(ivnum(b)))) if b != 1 else _IV1
        if k == "Logarithm":
            m = sym(xs[0])
            return abs(iv.log(m.b)) + 1
        if k == "Power":
            m = sym(xs[0])
            return iv.exp(xs[1].b * abs(iv.log(m.b)))
        return _IV1

    def _guard_fail(self, res, s, why, decisive):
        if decisive:
            res.undef.append(why)
            st = "undef"
        else:
            res.indet.append(why)
            st = "indet"
        return st

    def _apply(self, s, kids, res):
        k = s[0]
        sc = self.scale
        if k == "Add":
            return self._add(kids)
        if k == "Multiply":
            return self._mul(kids)
        if k == "Minus":
            a, b = kids
            x = infl(a.iv - b.iv, KB, sc)
            ex = _sub(a.ex, b.ex)
            return Val("def", x, ex, _fx(ex, a, b))
        if k == "Negation":
            a = kids[0]
            return Val("def", -a.iv, None if a.ex is None else -a.ex, a.fx)
        if k == "Divide":
            a, b = kids
            g = self._nonzero(b)
            if g != "ok":
                st = self._guard_fail(res, s, "zero denominator" if g == "fail" else "denominator may be zero", g == "fail")
                return Val(st, sym(abs(a.iv)), None, False, True, "Divide by zero")
            x = infl(a.iv / b.iv, KB, sc)
            ex = None
            if a.ex is not None and b.ex is not None and b.ex != 0:
                ex = a.ex / b.ex
                if not _frac_ok(ex):
                    ex = None
            return Val("def", x, ex, _fx(ex, a, b))
        if k == "Reciprocal":
            a = kids[0]
            g = self._nonzero(a)
            if g != "ok":
                st = self._guard_fail(res, s, "reciprocal of zero" if g == "fail" else "reciprocal argument may be zero", g == "fail")
                return Val(st, _IV1, None, False, True, "Reciprocal of zero")
            x = infl(1 / a.iv, KB, sc)
            ex = None
            if a.ex is not None and a.ex != 0:
                ex = 1 / a.ex
            return Val("def", x, ex, _fx(ex, a))
        if k == "NthPower":
            a = kids[0]
            n = S.int_n(s[2])
            if n == 1:
                return Val("def", a.iv, a.ex, a.fx)
            x = ipow(a.iv, n)
            if sc and not contains_zero(a.iv):
                cond = n * hi_float(abs(iv.log(abs(a.iv))))
                x = infl(x, 1, sc * KT * (1 + math.ceil(min(cond if math.isfinite(cond) else 1e6, 1e6))))
            else:
                x = infl(x, KT, sc)
            ex = None
            if a.ex is not None:
                if (a.ex.numerator.bit_length() + a.ex.denominator.bit_length()) * n <= 4096:
                    ex = a.ex ** n
            return Val("def", x, ex, _fx(ex, a))
        if k == "NthRoot":
            return self._root(s, kids[0], res)
        if k == "Exponential":
            return self._exponential(s, kids[0])
        if k == "Logarithm":
            a = kids[0]
            g = self._positive(a)
            if g != "ok":
                st = self._guard_fail(res, s, "logarithm of a non-positive number" if g == "fail" else "logarithm argument may be non-positive", g == "fail")
                sh = abs(iv.log(abs(a.iv))) + 1 if not contains_zero(a.iv) else _IV1
                return Val(st, sym(sh), None, False, True, "Logarithm domain")
            b = S.base_value(s[2])
            if s[2] is None or b == math.e:
                lb = self._ln_e()
            else:
                lb = iv.log(ivnum(b))
            x = infl(iv.log(a.iv) / lb, KT, sc)
            if a.fx and a.ex == 1:
                return Val("def", _IV0, Fraction(0), True)
            return Val("def", x, None, False)
        if k == "Power":
            return self._power(s, kids, res)
        if k == "Sine":
            a = kids[0]
            if a.fx and a.ex == 0:
                return Val("def", _IV0, Fraction(0), True)
            return Val("def", infl(iv.sin(a.iv), KT, sc), None, False)
        if k == "Cosine":
            a = kids[0]
            if a.fx and a.ex == 0:
                return Val("def", _IV1, Fraction(1), True)
            return Val("def", infl(iv.cos(a.iv), KT, sc), None, False)
        raise ValueError(f"unknown constructor {k}")

    # guards: 'ok' (decisively satisfied), 'fail' (decisively violated), 'maybe'
    def _nonzero(self, a):
        if not contains_zero(a.iv):
            return "ok"
        if a.fx and a.ex == 0:
            return "fail"
        if self.scale == 0 and a.ex is not None and a.ex == 0:
            return "fail"
        return "maybe"

    def _positive(self, a):
        if all_pos(a.iv):
            return "ok"
        if all_neg(a.iv):
            return "fail"
        if a.fx and a.ex is not None and a.ex <= 0:
            return "fail"
        if self.scale == 0 and a.ex is not None and a.ex <= 0:
            return "fail"
        return "maybe"

    def _add(self, kids):
        sc = self.scale
        if not kids:
            return Val("def", _IV0, Fraction(0), True)
        x = kids[0].iv
        for c in kids[1:]:
            x = infl(x + c.iv, KB, sc)
        ex = None
        fx = False
        if all(c.ex is not None for c in kids):
            ex = sum((c.ex for c in kids), Fraction(0))
            if all(c.fx for c in kids) and representable(ex):
                # every partial sum, in any order, is a multiple of 2^-q bounded by sum|x_i|
                qs = [_den_pow2(c.ex) for c in kids]
                if all(q is not None for q in qs):
                    q = max(qs)
                    tot = sum((abs(c.ex) for c in kids), Fraction(0)) * (1 << q)
                    fx = tot < (1 << 53)
        return Val("def", x, ex, fx)

    def _mul(self, kids):
        sc = self.scale
        if not kids:
            return Val("def", _IV1, Fraction(1), True)
        x = kids[0].iv
        for c in kids[1:]:
            x = infl(x * c.iv, KB, sc)
        ex = None
        fx = False
        if any(c.fx and c.ex == 0 for c in kids):
            # a float-exact zero factor makes the float product exactly zero
            return Val("def", _IV0, Fraction(0), True)
        if all(c.ex is not None for c in kids):
            ex = Fraction(1)
            for c in kids:
                ex *= c.ex
            if not _frac_ok(ex):
                ex = None
            elif all(c.fx for c in kids) and representable(ex):
                bits = sum(_odd_bits(c.ex.numerator) for c in kids)
                qs = [_den_pow2(c.ex) for c in kids]
                fx = bits <= 53 and all(q is not None for q in qs)
        return Val("def", x, ex, fx)

    def _root(self, s, a, res):
        sc = self.scale
        n = S.int_n(s[2])
        if n == 1:
            return Val("def", a.iv, a.ex, a.fx)
        even = n % 2 == 0
        g = self._positive(a) if even else self._nonzero(a)
        if g != "ok":
            if even:
                why = "even root of a non-positive number" if g == "fail" else "even root argument may be non-positive"
            else:
                why = "root of zero" if g == "fail" else "root argument may be zero"
            st = self._guard_fail(res, s, why, g == "fail")
            return Val(st, sym(abs(a.iv)) if not is_zero(a.iv) else _IV1, None, False, True, "NthRoot domain")
        neg = all_neg(a.iv)
        m = -a.iv if neg else a.iv
        if n == 2:
            r = infl(iv.sqrt(m), KB, sc)
        else:
            lg = iv.log(m)
            r = iv.exp(lg / n)
            if False:
                pass
            else:
                extra = abs(lg) / n
                r = infl(r, 1, sc * (KT * (1 + math.ceil(hi_float(extra)))))
        if neg:
            r = -r
        ex = None
        fx = False
        if a.ex is not None and n <= 64:
            rt = frac_root(abs(a.ex), n)
            if rt is not None:
                ex = -rt if a.ex < 0 else rt
                fx = (n == 2) and a.fx and representable(ex)
        return Val("def", r, ex, fx)

    def _exponential(self, s, a):
        sc = self.scale
        b = S.base_value(s[2])
        if b == 1:
            return Val("def", _IV1, Fraction(1), True)
        if a.fx and a.ex == 0:
            return Val("def", _IV1, Fraction(1), True)
        if s[2] is None or b == math.e:
            e_ = a.iv * self._ln_e()
        else:
            e_ = a.iv * iv.log(ivnum(b))
        x = iv.exp(e_)
        # pow-family: an implementation may compute exp(x * log(b)); its error is proportional to |x ln b|
        cond = hi_float(abs(e_))
        x = infl(x, 1, sc * KT * (1 + math.ceil(min(cond if math.isfinite(cond) else 1e6, 1e6))))
        ex = None
        if a.ex is not None and a.ex.denominator == 1 and abs(a.ex) <= 256 and not (s[2] is None or b == math.e):
            fb = Fraction(b)
            if (fb.numerator.bit_length() + fb.denominator.bit_length()) * int(abs(a.ex)) <= 4096:
                ex = fb ** int(a.ex)
        return Val("def", x, ex, False)

    def _power(self, s, kids, res):
        sc = self.scale
        a, b = kids
        g = self._positive(a)
        if g != "ok":
            st = self._guard_fail(res, s, "power with non-positive base" if g == "fail" else "power base may be non-positive", g == "fail")
            sh = _IV1
            if not contains_zero(a.iv):
                sh = iv.exp(abs(b.iv) * abs(iv.log(abs(a.iv))))
            return Val(st, sym(sh), None, False, True, "Power domain")
        if b.fx and b.ex == 0:
            return Val("def", _IV1, Fraction(1), True)
        if a.fx and a.ex == 1:
            return Val("def", _IV1, Fraction(1), True)
        x = self._pow_iv(a.iv, b.iv)
        ex = None
        if a.ex is not None and b.ex is not None and b.ex.denominator == 1 and abs(b.ex) <= 256:
            if (a.ex.numerator.bit_length() + a.ex.denominator.bit_length()) * int(abs(b.ex)) <= 4096:
                ex = a.ex ** int(b.ex)
        return Val("def", x, ex, False)

    def _pow_iv(self, a, b):
        """a^b for a > 0 with the pow-family inflation K*u*(1+|b ln a|)."""
        lg = iv.log(a)
        e = b * lg
        x = iv.exp(e)
        if self.scale:
            cond = hi_float(abs(e))
            if not math.isfinite(cond):
                cond = 1e300
            x = infl(x, 1, self.scale * KT * (1 + math.ceil(min(cond, 1e6))))
        return x

    # -- forward-mode reference AD ---------------------------------------------------------------
    def derivative(self, s, point, var, res=None, memo=None):
        """Enclosure of d s / d var at point (requires the tree to be decisively defined there).
        Returns (Result, d_interval, dabs_interval, dexact_or_None)."""
        if res is None:
            res = self.evaluate(s, point, memo)
        if res.status != "def":
            return res, None, None, None
        dm = {}
        self._vm = {}
        d, da, dx = self._d(s, var, res.memo, dm)
        return res, d, da, dx

    def _vars(self, s):
        hit = self._vm.get(id(s))
        if hit is not None:
            return hit
        if s[0] == "Variable":
            out = frozenset((s[1],))
        else:
            out = frozenset().union(*[self._vars(c) for c in S.children(s)]) if S.children(s) else frozenset()
        self._vm[id(s)] = out
        return out

    def _val(self, s, memo):
        return memo[id(s)][1]

    def _d(self, s, var, memo, dm):
        key = id(s)
        hit = dm.get(key)
        if hit is not None:
            return hit
        out = self._d1(s, var, memo, dm)
        dm[key] = out
        return out

    def _A(self, x, y):
        return infl(x + y, KB, self.scale)

    def _M(self, x, y):
        if is_zero(x) or is_zero(y):
            return _IV0
        return infl(x * y, KB, self.scale)

    def _D(self, x, y):
        if is_zero(x):
            return _IV0
        return infl(x / y, KB, self.scale)

    def _d1(self, s, var, memo, dm):
        k = s[0]
        if k == "Constant":
            return _IV0, _IV0, Fraction(0)
        if k == "Variable":
            if s[1] == var:
                return _IV1, _IV1, Fraction(1)
            return _IV0, _IV0, Fraction(0)
        if var not in self._vars(s):
            return _IV0, _IV0, Fraction(0)
        A, M, D = self._A, self._M, self._D
        v = self._val(s, memo)
        cs = S.children(s)
        cv = [self._val(c, memo) for c in cs]
        cd = [self._d(c, var, memo, dm) for c in cs]
        if k == "Add":
            d, da = _IV0, _IV0
            first = True
            for (x, xa, _) in cd:
                d = x if first else A(d, x)
                first = False
                da = da + xa
            dx = _sumx([c[2] for c in cd])
            return d, da, dx
        if k == "Minus":
            d = A(cd[0][0], -cd[1][0])
            return d, cd[0][1] + cd[1][1], _sub(cd[0][2], cd[1][2])
        if k == "Negation":
            return -cd[0][0], cd[0][1], None if cd[0][2] is None else -cd[0][2]
        if k == "Multiply":
            d, da = _IV0, _IV0
            dx = Fraction(0)
            for i, (x, xa, xx) in enumerate(cd):
                if is_zero(x) and is_zero(xa):
                    continue
                t, ta = x, xa
                for j, c in enumerate(cv):
                    if j != i:
                        t = M(t, c.iv)
                        ta = ta * abs(c.iv)
                d = A(d, t) if not is_zero(d) else t
                da = da + ta
                if dx is not None:
                    if xx is None or any(c.ex is None for j, c in enumerate(cv) if j != i):
                        dx = None
                    else:
                        term = xx
                        for j, c in enumerate(cv):
                            if j != i:
                                term *= c.ex
                        dx += term
            return d, da, dx
        if k == "Divide":
            l, r = cv
            (dl, dla, dlx), (dr, dra, drx) = cd
            t1 = D(dl, r.iv)
            t2 = M(D(l.iv, M(r.iv, r.iv)), dr)
            d = A(t1, -t2)
            da = dla / abs(r.iv) + abs(l.iv) / (r.iv * r.iv) * dra
            dx = None
            if dlx is not None and drx is not None and l.ex is not None and r.ex is not None and r.ex != 0:
                dx = dlx / r.ex - l.ex * drx / (r.ex * r.ex)
            return d, da, dx
        if k == "Reciprocal":
            u = cv[0]
            (du, dua, dux) = cd[0]
            d = -D(du, M(u.iv, u.iv))
            da = dua / (u.iv * u.iv)
            dx = None
            if dux is not None and u.ex is not None and u.ex != 0:
                dx = -dux / (u.ex * u.ex)
            return d, da, dx
        if k == "NthPower":
            n = S.int_n(s[2])
            u = cv[0]
            (du, dua, dux) = cd[0]
            if n == 1:
                return du, dua, dux
            p = infl(ipow(u.iv, n - 1), KT, self.scale) if n > 2 else u.iv
            d = M(M(ivnum(n), p), du)
            da = n * abs(ipow(u.iv, n - 1)) * dua
            dx = None
            if dux is not None and u.ex is not None and n <= 64:
                dx = n * u.ex ** (n - 1) * dux
                if not _frac_ok(dx):
                    dx = None
            return d, da, dx
        if k == "NthRoot":
            n = S.int_n(s[2])
            (du, dua, dux) = cd[0]
            if n == 1:
                return du, dua, dux
            r = v.iv
            p = infl(ipow(r, n - 1), KT, self.scale) if n > 2 else r
            den = M(ivnum(n), p)
            d = D(du, den)
            da = dua / abs(den)
            dx = None
            if dux is not None and v.ex is not None and v.ex != 0 and n <= 64:
                dx = dux / (n * v.ex ** (n - 1))
            return d, da, dx
        if k == "Exponential":
            b = S.base_value(s[2])
            (du, dua, dux) = cd[0]
            if b == 1:
                return _IV0, _IV0, Fraction(0)
            if s[2] is None or b == math.e:
                lb = self._ln_e()
            else:
                lb = infl(iv.log(ivnum(b)), KT, self.scale)
            d = M(M(lb, v.iv), du)
            da = abs(lb) * abs(v.iv) * dua
            return d, da, None
        if k == "Logarithm":
            b = S.base_value(s[2])
            u = cv[0]
            (du, dua, dux) = cd[0]
            if s[2] is None or b == math.e:
                lb = self._ln_e()
                den = M(lb, u.iv)
            else:
                lb = infl(iv.log(ivnum(b)), KT, self.scale)
                den = M(lb, u.iv)
            d = D(du, den)
            da = dua / abs(den)
            return d, da, None
        if k == "Power":
            a, b = cv
            (dl, dla, _), (dr, dra, _) = cd
            d, da = _IV0, _IV0
            if not (is_zero(dl) and is_zero(dla)):
                e1 = infl(b.iv - 1, KB, self.scale)
                p = self._pow_iv(a.iv, e1)
                t = M(M(b.iv, p), dl)
                d = t
                da = da + abs(b.iv) * abs(p) * dla
            if not (is_zero(dr) and is_zero(dra)):
                lg = infl(iv.log(a.iv), KT, self.scale)
                t = M(M(lg, v.iv), dr)
                d = A(d, t) if not is_zero(d) else t
                da = da + abs(lg) * abs(v.iv) * dra
            return d, da, None
        if k == "Sine":
            u = cv[0]
            (du, dua, _) = cd[0]
            c = infl(iv.cos(u.iv), KT, self.scale)
            return M(c, du), abs(c) * dua, None
        if k == "Cosine":
            u = cv[0]
            (du, dua, _) = cd[0]
            c = infl(iv.sin(u.iv), KT, self.scale)
            return -M(c, du), abs(c) * dua, None
        raise ValueError(k)


def _sub(a, b):
    if a is None or b is None:
        return None
    return a - b


def _sumx(xs):
    if any(x is None for x in xs):
        return None
    return sum(xs, Fraction(0))


def _fx(ex, *kids):
    return ex is not None and all(c.fx for c in kids) and representable(ex)


NORMAL = Model(scale=1)
EXACT = Model(scale=0)
EXACT_WIDE = Model(scale=0, widen=4)
EXACT_WIDE_ALL = Model(scale=0, widen=4, widen_integral=True)   # exact arithmetic, every float-typed constant (a folded constant is always a float) within 4u
NORMAL_WIDE = Model(scale=1, widen=4, widen_integral=True)   # contains the value of an expression whose folded constants are off by <= 4u, under any conforming float evaluation


def slack_interval(d, dabs, mult=16):
    """d widened by mult*u*S where S bounds the sum of absolute path contributions."""
    s = abs(dabs).b * (_U_IV * mult)
    return d + iv.mpf([-s.b, s.b])


def numdiff(s, point, var, h_exp=40, prec=800):
    """Central difference of the exact evaluator (independent of the AD rules): used only to
    self-check the oracle.  Returns an mp interval approximating d s/d var, or None."""
    x0 = point[var]
    h = Fraction(1, 10 ** h_exp)
    outs = []
    saved = iv.prec
    iv.prec = prec
    try:
        for sign in (1, -1):
            p = dict(point)
            p[var] = Fraction(x0) + sign * h
            r = _eval_fraction_point(s, p)
            if r is None:
                return None
            outs.append(r)
        return (outs[0] - outs[1]) / ivnum(2 * h)
    finally:
        iv.prec = saved


_NUMDIFF_MODEL = Model(scale=0, point_e=True)


def _eval_fraction_point(s, p):
    """Exact-model evaluation where coordinates may be Fractions."""
    m = _NUMDIFF_MODEL
    res = Result()

    def ev(t):
        k = t[0]
        if k == "Variable":
            v = p.get(t[1])
            if v is None:
                raise KeyError
            return Val("def", ivnum(v), Fraction(v), False)
        if k == "Constant":
            return Val("def", ivnum(t[1]), Fraction(t[1]), False)
        kids = [ev(c) for c in S.children(t)]
        if any(c.st != "def" for c in kids):
            return Val("undef", _IV1)
        return m._apply(t, kids, res)
    try:
        out = ev(s)
    except Exception:
        return None
    if out.st != "def" or res.undef or res.indet:
        return None
    return out.iv
