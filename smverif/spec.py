"""Spec-trees: the harness's own immutable description of a smoothmath expression.

A spec is a nested tuple:
    ("Constant", value)              value: int | float
    ("Variable", name)
    (U, child)                       U in UNARY
    (P, child, n)                    P in {"NthPower", "NthRoot"}; n as given to the constructor (int or integral float)
    (B, child, base)                 B in {"Exponential", "Logarithm"}; base None = argument omitted (e)
    (O, left, right)                 O in BINARY
    (N, child, child, ...)           N in NARY (any arity, including 0)

Specs are what workloads generate, what the reference model interprets, what library objects are
built from (through the public constructors) and what library objects are reflected back into.
"""
from __future__ import annotations
import hashlib
import json
import math

UNARY = ("Negation", "Reciprocal", "Cosine", "Sine")
POWN = ("NthPower", "NthRoot")
BASED = ("Exponential", "Logarithm")
BINARY = ("Minus", "Divide", "Power")
NARY = ("Add", "Multiply")
LEAVES = ("Constant", "Variable")
ALL = LEAVES + UNARY + POWN + BASED + BINARY + NARY


def kind(s):
    return s[0]


def children(s):
    k = s[0]
    if k in LEAVES:
        return ()
    if k in UNARY:
        return (s[1],)
    if k in POWN or k in BASED:
        return (s[1],)
    if k in BINARY:
        return (s[1], s[2])
    return tuple(s[1:])


def with_children(s, new):
    k = s[0]
    if k in LEAVES:
        return s
    if k in UNARY:
        return (k, new[0])
    if k in POWN or k in BASED:
        return (k, new[0], s[2])
    if k in BINARY:
        return (k, new[0], new[1])
    return (k,) + tuple(new)


def size(s):
    n = 1
    for c in children(s):
        n += size(c)
    return n


def depth(s):
    cs = children(s)
    return 1 + (max(depth(c) for c in cs) if cs else 0)


def variables(s, acc=None):
    if acc is None:
        acc = set()
    if s[0] == "Variable":
        acc.add(s[1])
    else:
        for c in children(s):
            variables(c, acc)
    return acc


def kinds(s, acc=None):
    if acc is None:
        acc = set()
    acc.add(s[0])
    for c in children(s):
        kinds(c, acc)
    return acc


def subterms(s):
    yield s
    for c in children(s):
        yield from subterms(c)


def base_value(b):
    return math.e if b is None else b


def int_n(n):
    """The integer a constructor stores for parameter n (None if it must be rejected)."""
    if isinstance(n, bool):
        return int(n)
    if isinstance(n, int):
        return n
    if isinstance(n, float) and n.is_integer():
        return int(n)
    return None


# ---- canonical forms -------------------------------------------------------------------------

def canon(s):
    """Semantic canonical form used for *spec equality*: n as int, base as float value,
    constants compared numerically (2 == 2.0), i.e. the equality the property C12 describes."""
    k = s[0]
    if k == "Constant":
        v = s[1]
        if isinstance(v, (int, float)) and not isinstance(v, bool):
            if isinstance(v, float) and v.is_integer() and abs(v) < 2 ** 62:
                return (k, int(v))
            return (k, v)
        return (k, v)
    if k == "Variable":
        return s
    if k in UNARY:
        return (k, canon(s[1]))
    if k in POWN:
        return (k, canon(s[1]), int_n(s[2]))
    if k in BASED:
        b = base_value(s[2])
        if isinstance(b, float) and b.is_integer():
            b = int(b)
        return (k, canon(s[1]), b)
    if k in BINARY:
        return (k, canon(s[1]), canon(s[2]))
    return (k,) + tuple(canon(c) for c in s[1:])


def spec_equal(a, b):
    return canon(a) == canon(b)


# ---- JSON ------------------------------------------------------------------------------------

def _num_to_json(v):
    if isinstance(v, bool):
        return {"bool": v}
    if isinstance(v, int):
        return v if abs(v) < 2 ** 53 else {"int": str(v)}
    if isinstance(v, float):
        if math.isfinite(v):
            return {"f": v.hex()}
        return {"f": repr(v)}
    return {"repr": repr(v)}


def _num_from_json(j):
    if isinstance(j, dict):
        if "f" in j:
            t = j["f"]
            try:
                return float.fromhex(t)
            except ValueError:
                return float(t)
        if "int" in j:
            return int(j["int"])
        if "bool" in j:
            return bool(j["bool"])
        raise ValueError(j)
    return j


def to_json(s):
    k = s[0]
    if k == "Constant":
        return [k, _num_to_json(s[1])]
    if k == "Variable":
        return [k, s[1]]
    if k in UNARY:
        return [k, to_json(s[1])]
    if k in POWN:
        return [k, to_json(s[1]), _num_to_json(s[2])]
    if k in BASED:
        return [k, to_json(s[1]), None if s[2] is None else _num_to_json(s[2])]
    if k in BINARY:
        return [k, to_json(s[1]), to_json(s[2])]
    return [k] + [to_json(c) for c in s[1:]]


def from_json(j):
    k = j[0]
    if k == "Constant":
        return (k, _num_from_json(j[1]))
    if k == "Variable":
        return (k, j[1])
    if k in UNARY:
        return (k, from_json(j[1]))
    if k in POWN:
        return (k, from_json(j[1]), _num_from_json(j[2]))
    if k in BASED:
        return (k, from_json(j[1]), None if j[2] is None else _num_from_json(j[2]))
    if k in BINARY:
        return (k, from_json(j[1]), from_json(j[2]))
    return (k,) + tuple(from_json(c) for c in j[1:])


def point_to_json(p):
    return None if p is None else {name: _num_to_json(v) for name, v in p.items()}


def point_from_json(j):
    return None if j is None else {name: _num_from_json(v) for name, v in j.items()}


def show(s):
    """Constructor-call text of a spec (harness-side pretty printer, independent of the library's repr)."""
    k = s[0]
    if k == "Constant":
        return f"Constant({s[1]!r})"
    if k == "Variable":
        return f'Variable("{s[1]}")'
    if k in UNARY:
        return f"{k}({show(s[1])})"
    if k in POWN:
        return f"{k}({show(s[1])}, n={s[2]!r})"
    if k in BASED:
        if s[2] is None:
            return f"{k}({show(s[1])})"
        return f"{k}({show(s[1])}, base={s[2]!r})"
    if k in BINARY:
        return f"{k}({show(s[1])}, {show(s[2])})"
    return f"{k}({', '.join(show(c) for c in s[1:])})"


def show_point(p):
    if p is None:
        return "None"
    return "Point(" + ", ".join(f"{k}={v!r}" for k, v in p.items()) + ")"


def digest(*objs) -> bytes:
    h = hashlib.blake2b(digest_size=8)
    for o in objs:
        h.update(json.dumps(o, sort_keys=True, default=repr).encode())
        h.update(b"\0")
    return h.digest()


def spec_digest(s, p=None, extra=None) -> bytes:
    return digest(to_json(canon_for_digest(s)), point_to_json(p) if isinstance(p, dict) else p, extra)


def canon_for_digest(s):
    return s


# ---- building library objects ----------------------------------------------------------------

class Builder:
    """Builds library objects from specs through the public constructors.

    mode "tree": every node a fresh object;
    mode "dag":  equal sub-specs become one shared object (hash-consing).
    """

    def __init__(self, mode="tree"):
        import smoothmath.expression as E
        self.E = E
        self.mode = mode
        self.memo = {}
        self.nodes_built = 0
        self.nodes = []             # every object built, in construction order (the caller's own references)

    def build(self, s):
        E = self.E
        k = s[0]
        kids = [self.build(c) for c in children(s)]
        if self.mode == "dag":
            if k in LEAVES or k in POWN or k in BASED:
                par = repr(s[1] if k in LEAVES else s[2])
            else:
                par = ""
            key = (k, par, tuple(id(c) for c in kids))
            hit = self.memo.get(key)
            if hit is not None:
                return hit
        self.nodes_built += 1
        if k == "Constant":
            obj = E.Constant(s[1])
        elif k == "Variable":
            obj = E.Variable(s[1])
        else:
            cls = getattr(E, k)
            if k in UNARY:
                obj = cls(kids[0])
            elif k in POWN:
                obj = cls(kids[0], n=s[2])
            elif k in BASED:
                obj = cls(kids[0]) if s[2] is None else cls(kids[0], base=s[2])
            elif k in BINARY:
                obj = cls(kids[0], kids[1])
            else:
                obj = cls(*kids)
        self.nodes.append(obj)
        if self.mode == "dag":
            self.memo[key] = obj
        return obj


def build(s, mode="tree"):
    return Builder(mode).build(s)


def make_point(p):
    import smoothmath
    return smoothmath.Point(**p)
