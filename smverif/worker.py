"""One shard of one check, in its own interpreter:  python -B -m smverif.worker --prop C01 ..."""
from __future__ import annotations
import argparse
import faulthandler
import importlib
import json
import os
import sys


def main(argv=None):
    ap = argparse.ArgumentParser()
    ap.add_argument("--prop", required=True)
    ap.add_argument("--tier", default="quick")
    ap.add_argument("--seed", type=int, default=0)
    ap.add_argument("--shard", type=int, default=0)
    ap.add_argument("--nshards", type=int, default=1)
    ap.add_argument("--out", required=True)
    ap.add_argument("--replay", default=None)
    ap.add_argument("--watchdog", type=int, default=0)
    a = ap.parse_args(argv)

    repo_src = os.environ.get("SMVERIF_REPO_SRC", "/repo/src")
    sys.path.insert(0, repo_src)
    from . import deps
    deps.add_to_path()
    sys.setrecursionlimit(20000)
    faulthandler.enable()
    if a.watchdog:
        faulthandler.dump_traceback_later(a.watchdog, exit=True)

    import smoothmath
    lib_file = os.path.realpath(smoothmath.__file__)
    if not lib_file.startswith(os.path.realpath(repo_src) + os.sep):
        print(f"INCONCLUSIVE property={a.prop} reason=smoothmath imported from {lib_file}, not {repo_src}")
        sys.exit(2)

    from . import core, hooks
    mod = importlib.import_module("smverif.props." + a.prop.lower())
    mons = tuple(getattr(mod, "MONITORS", ("math", "route")))
    if a.shard == 0 and not a.replay:
        mons = mons + ("cov",)
    installed = hooks.install(mons)
    ctx = core.Ctx(a.prop, a.tier, a.seed, a.shard, a.nshards, mod)
    ctx.installed = sorted(installed)
    if a.replay:
        with open(a.replay) as f:
            wit = json.load(f)
        case = wit["case"]
        found = ctx.run_case(case)
        rep = ctx.report()
        rep["replay_found"] = found
    else:
        mod.run_shard(ctx)
        rep = ctx.report()
    rep["installed"] = sorted(installed)
    if "cov" in installed:
        try:
            rep["line_coverage"] = hooks.coverage_report()
        except Exception as e:
            rep["line_coverage_error"] = repr(e)
    rep["lib_file"] = lib_file
    rep["hashseed"] = os.environ.get("PYTHONHASHSEED")
    dig_path = a.out + ".digests"
    with open(dig_path, "wb") as f:
        for d in ctx.digests:
            f.write(d)
    rep["digest_file"] = dig_path
    extra = getattr(ctx, "extra", None)
    if extra is not None:
        rep["extra"] = extra
    with open(a.out, "w") as f:
        json.dump(rep, f, default=repr)
    if a.watchdog:
        faulthandler.cancel_dump_traceback_later()


if __name__ == "__main__":
    main()
