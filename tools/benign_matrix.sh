#!/bin/bash
# usage: tools/benign_matrix.sh  - semantics-preserving refactors (benign/*.diff) must NOT raise an alarm in any check
cd "$(dirname "$0")/.."
props=${@:-C01 C02 C03 C04 C05 C06 C07 C08 C09 C10 C11 C12 C13 C14 C15 C16 C17 C18}
for f in benign/*.diff; do
  d=$(mktemp -d /tmp/smx.XXXXXX); cp -r /repo/src "$d/src"
  (cd "$d" && patch -p1 -s < "$OLDPWD/$f") || { echo "$f PATCH-FAILED"; rm -rf "$d"; continue; }
  line="$(basename $f .diff):"
  for p in $props; do
    SMVERIF_REPO_SRC="$d/src" /venv/bin/python -B -m smverif.check $p --tier ${TIER:-quick} --no-evidence > /tmp/_b.out 2>&1
    e=$?
    [ $e -ne 0 ] && line="$line $p(exit=$e)"
  done
  echo "$line [expected: no alarms]"
  rm -rf "$d"
done
