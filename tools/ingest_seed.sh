#!/bin/bash
# usage: tools/ingest_seed.sh <worktree> <seed-id> <PROP> [more props]  - verify a sub-agent's seeded change, store it, run checks on it
wt=$1; id=$2; shift 2
cd /verif
tools/verify_seed.sh $wt || exit 1
d=seeded/$id; mkdir -p $d
(cd $wt && git diff -- src) > $d/patch.diff; cp $wt/demo.py $d/demo.py; cp $wt/NOTES.md $d/NOTES.md 2>/dev/null
tools/try_mutant.sh $d/patch.diff "$@" 2>&1 | grep -E "exit=|^\[" | sed 's/evaluations.*violations/violations/'
