"""Runs the repository's own test suite with the smverif monitors switched ON (M-MEMO, M-VARS, M-MUT, M-RW counters).
A monitor that fires here is either too strict or a defect the tests do not assert (DESIGN.md section 6.5).
usage: /venv/bin/python -B tools/repo_tests_with_monitors.py [repo_root]"""
import os
import sys

root = sys.argv[1] if len(sys.argv) > 1 else "/repo"
os.environ["SMOOTHMATH_VERIF"] = "1"
sys.path.insert(0, os.path.join(root, "src"))
sys.path.insert(0, os.path.join(root, "test_helpers"))
sys.path.insert(0, os.path.dirname(os.path.dirname(os.path.abspath(__file__))))
from smverif import deps
deps.ensure(); deps.add_to_path()
from smverif import hooks
hooks.install(("math", "route", "acc", "rw", "memo", "vars", "mut"))
hooks.ST.memo_on = True
hooks.ST.vars_on = True
hooks.ST.mut_on = True
import pytest
os.chdir(root)
rc = pytest.main(["-q", "-p", "no:cacheprovider", "--import-mode=importlib", "tests"])
st = hooks.ST
print(f"pytest rc={rc}")
print(f"M-MEMO: {st.memo_hits} cache hits seen, {st.memo_checked} verified, {len(st.memo_viol)} stale")
print(f"M-VARS: {st.vars_checked} constructions verified, {len(st.vars_viol)} wrong variable sets")
print(f"M-MUT : {len(st.mut_events)} structural re-assignments / in-place mutations")
print(f"M-RW  : {sum(st.rw_rules_fired.values())} rule firings, {len(st.rw_rules_fired)} distinct rules of {len(st.rw_rules_seen)}")
for v in st.memo_viol[:3] + st.vars_viol[:3] + st.mut_events[:3]:
    print("   ", str(v)[:300])
sys.exit(0 if rc == 0 and not st.memo_viol and not st.vars_viol and not st.mut_events else 1)
