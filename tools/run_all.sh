#!/bin/bash
# usage: tools/run_all.sh [quick|thorough] [props...]   - runs the registered checks in /verif against /repo and validates evidence
cd "$(dirname "$0")/.."
tier=${1:-quick}; shift
props=${@:-C01 C02 C03 C04 C05 C06 C07 C08 C09 C10 C11 C12 C13 C14 C15 C16 C17 C18}
rc=0
for p in $props; do
  s=$(date +%s)
  /venv/bin/python -B -m smverif.check $p --tier $tier | grep -E "VIOLATION|INCONCLUSIVE|KNOWN-FINDING|^\[" | cut -c1-260
  e=${PIPESTATUS[0]}
  echo "   $p exit=$e $(( $(date +%s) - s ))s"
  [ $e -ne 0 ] && rc=1
done
python3-vt - <<'PY'
import json, jsonschema, glob
sch=json.load(open('/root/.vp/EVIDENCE.schema.json'))
for f in sorted(glob.glob('/verif/evidence/C*.json')):
    try: jsonschema.validate(json.load(open(f)), sch)
    except Exception as e: print('EVIDENCE INVALID', f, str(e)[:200])
print('evidence validated')
PY
exit $rc
