#!/bin/bash
# usage: tools/seed_matrix.sh [seed dirs...]   - runs every quick check against every seeded change (scratch copies), prints a matrix
cd "$(dirname "$0")/.."
seeds=${@:-$(ls -d seeded/*/ | sed 's#/$##')}
props="C01 C02 C03 C04 C05 C06 C07 C08 C09 C10 C11 C12 C13 C14 C15 C16 C17 C18"
for sd in $seeds; do
  d=$(mktemp -d /tmp/smx.XXXXXX)
  cp -r /repo/src "$d/src"
  if ! (cd "$d" && patch -p1 -s < "$OLDPWD/$sd/patch.diff"); then echo "$sd PATCH-FAILED"; rm -rf "$d"; continue; fi
  line="$(basename $sd):"
  for p in $props; do
    SMVERIF_REPO_SRC="$d/src" /venv/bin/python -B -m smverif.check $p --tier ${TIER:-quick} --no-evidence > /tmp/_m.out 2>&1
    e=$?
    [ $e -eq 1 ] && line="$line $p"
    [ $e -eq 2 ] && line="$line $p(inconclusive)"
  done
  echo "$line"
  rm -rf "$d"
done
