"""usage: python3 tools/seed_table.py [matrix-log]  - updates seeded/*/meta.json (caught_by_quick) from a seed_matrix.sh log
and prints the Markdown table of DESIGN.md section 10."""
import glob, json, os, re, sys
root = os.path.dirname(os.path.dirname(os.path.abspath(__file__)))
caught = {}
if len(sys.argv) > 1:
    for line in open(sys.argv[1]):
        m = re.match(r"^(C\d\d-[a-z]):(.*)$", line.strip())
        if m:
            caught[m.group(1)] = m.group(2).split()
rows = []
for d in sorted(glob.glob(os.path.join(root, "seeded", "*"))):
    mp = os.path.join(d, "meta.json")
    if not os.path.exists(mp):
        continue
    meta = json.load(open(mp))
    sid = meta["id"]
    if sid in caught:
        meta["caught_by_quick"] = caught[sid]
        json.dump(meta, open(mp, "w"), indent=1)
    rows.append(meta)
print("| id | breaks | what it needs to manifest | quick checks that report a violation | how it went |")
print("|---|---|---|---|---|")
for m in rows:
    need = m["needs_to_manifest"].replace("|", "\\|")
    if len(need) > 330:
        need = need[:327] + "..."
    det = m.get("detection", "").replace("|", "\\|")
    print(f"| {m['id']} | {m['breaks_property']} | {need} | {' '.join(m.get('caught_by_quick') or []) or '(matrix pending)'} | {det} |")
