#!/bin/bash
# usage: tools/sweep.sh <tier> "<seeds>" [props...]  - runs checks for several VERIF_SEED values without touching evidence
cd "$(dirname "$0")/.."
tier=$1; seeds=$2; shift 2
props=${@:-C01 C02 C03 C04 C05 C06 C07 C08 C09 C10 C11 C12 C13 C14 C15 C16 C17 C18}
for s in $seeds; do
  for p in $props; do
    out=$(VERIF_SEED=$s /venv/bin/python -B -m smverif.check $p --tier $tier --no-evidence 2>&1)
    e=$?
    echo "seed=$s $p exit=$e $(echo "$out" | grep -E '^\[' | sed 's/.*evaluations/evaluations/')"
    if [ $e -ne 0 ]; then echo "$out" | grep -E "VIOLATION|INCONCLUSIVE|^  " | cut -c1-600 | head -8; fi
  done
done
