#!/bin/bash
# usage: tools/try_demo.sh seeded/<id>   - the seed's own demonstration must exit 1 on a patched scratch copy and 0 on /repo/src
sd=${1%/}
d=$(mktemp -d /tmp/smx.XXXXXX); trap 'rm -rf "$d"' EXIT
cp -r /repo/src "$d/src"; (cd "$d" && patch -p1 -s < "$OLDPWD/$sd/patch.diff") || { echo "$sd PATCH-FAILED"; exit 3; }
SMOOTHMATH_SRC="$d/src" timeout 600 /venv/bin/python -B "$sd/demo.py" > /dev/null 2>&1; with=$?
SMOOTHMATH_SRC=/repo/src timeout 600 /venv/bin/python -B "$sd/demo.py" > /dev/null 2>&1; without=$?
echo "$(basename $sd): demo with change exit=$with, on /repo exit=$without"
