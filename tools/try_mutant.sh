#!/bin/bash
# usage: tools/try_mutant.sh <patch.diff> <PROP> [<PROP>...]   (env TIER=quick|thorough, SCALE=1)
# Applies the patch to a scratch copy of /repo/src (outside /repo and /verif), runs the named checks
# against it without touching evidence files, and removes the copy.  Also runs the repository's own
# tests against the copy when TESTS=1.
set -u
patch_file=$(readlink -f "$1"); shift
d=$(mktemp -d /tmp/smx.XXXXXX)
trap 'rm -rf "$d"' EXIT
cp -r /repo/src "$d/src"
cp -r /repo/tests "$d/tests"; cp -r /repo/test_helpers "$d/test_helpers"; cp /repo/pyproject.toml "$d/"
(cd "$d" && patch -p1 -s < "$patch_file") || { echo "PATCH FAILED"; exit 3; }
if [ "${TESTS:-0}" = "1" ]; then
  (cd "$d" && /venv/bin/python -B -m pytest -q -p no:cacheprovider -x 2>&1 | tail -2)
fi
cd /verif
for p in "$@"; do
  SMVERIF_REPO_SRC="$d/src" /venv/bin/python -B -m smverif.check "$p" --tier "${TIER:-quick}" --scale "${SCALE:-1}" --no-evidence 2>&1 | grep -E "VIOLATION|INCONCLUSIVE|KNOWN|^\[" | head -${LINES_MAX:-6}
  echo "  -> $p exit=${PIPESTATUS[0]}"
done
