#!/bin/bash
# usage: tools/verify_seed.sh <worktree> : confirms (a) tests pass with the change, (b) demo exits 1 with and 0 without the change
wt=$1
cd $wt || exit 9
git diff -- src > /tmp/_seed.diff
[ -s /tmp/_seed.diff ] || { echo "no source change in $wt"; exit 9; }
t=$(/venv/bin/python -B -m pytest -q -p no:cacheprovider 2>&1 | tail -1)
/venv/bin/python -B demo.py > /tmp/_demo_with.txt 2>&1; with=$?
git stash -q -- src
/venv/bin/python -B demo.py > /tmp/_demo_without.txt 2>&1; without=$?
git stash pop -q
echo "$wt: tests[$t] demo_with=$with demo_without=$without files=$(git diff --stat -- src | tail -1)"
